"""setup: build what does not depend on /repo (the released-library worker)
and self-test the reference models."""
import sys

from . import build


def main():
    p = build.sys_program("vw.c", "vw-sys")
    print("built", p)
    try:
        from . import ref
        bad = ref.selftest()
        if bad:
            print("reference-model self-test FAILED:", bad, file=sys.stderr)
            return 2
        print("reference models: self-test ok")
    except ImportError:
        pass
    return 0
