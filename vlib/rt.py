"""Run-time glue shared by the checks: build the flavours once in the parent,
hand worker paths to forked children, protocol helpers."""
import os
import random

from . import build, pool
from .pool import hx, unhx

TREE = None
PATHS = {}
CD_SIZE = 32768

EINVAL, ERANGE, ENOMEM = 22, 34, 12


def prepare(flavours, sys_worker=False):
    """Build vw for each flavour from the current working tree of /repo."""
    global TREE
    if TREE is None:
        TREE = build.Tree()
    # compile flavours in parallel threads (each is an external compiler run)
    import concurrent.futures
    with concurrent.futures.ThreadPoolExecutor(max_workers=4) as ex:
        futs = {fl: ex.submit(TREE.program, fl, "vw.c") for fl in flavours}
        for fl, f in futs.items():
            PATHS["vw-" + fl] = f.result()
    if sys_worker:
        PATHS["vw-sys"] = build.sys_program("vw.c", "vw-sys")
    return TREE


def vw(flavour):
    return pool.worker(PATHS["vw-" + flavour])


STALE_ERRNOS = (2, 22, 34, 12, 0, 4)     # ENOENT, EINVAL, ERANGE, ENOMEM, none, EINTR


def stale_errno(k):
    """errno value left behind by 'an earlier call' for workload unit k: a library call must neither depend on it
    nor let it survive a refusal"""
    return STALE_ERRNOS[hash(k) % len(STALE_ERRNOS)] if not isinstance(k, int) else STALE_ERRNOS[k % len(STALE_ERRNOS)]


def errno_independence(acc, pid, w, setup, lines, rows, flavour, what, values=(34, 22), timeout=120.0):
    """Re-run `lines` with errno pre-set to other stale values: the outcome of a library call (result string, and
    the errno of a failure) must not depend on what errno held on entry.  `setup` without its own preerrno line."""
    from .pool import Death
    for v in values:
        rows2 = run_resilient(w, list(setup) + ["preerrno %d" % v], lines, timeout=timeout, max_deaths=3)
        for ln, a, b in zip(lines, rows, rows2):
            if not isinstance(a, dict) or not isinstance(b, dict):
                continue
            acc.count("errno_independence_pairs")
            same = (a.get("r"), a.get("o")) == (b.get("r"), b.get("o"))
            if same and a.get("r") == "N" and a.get("e") != b.get("e"):
                same = False
            if not same:
                acc.violation("%s/depends-on-stale-errno/%s" % (pid, what),
                              "with errno = %d on entry the call gives r=%s o=%s e=%s, otherwise r=%s o=%s e=%s: %s" % (
                                  v, b.get("r"), (b.get("o") or "")[:80], b.get("e"), a.get("r"), (a.get("o") or "")[:80],
                                  a.get("e"), ln[:160]),
                              replay_obj(flavour, list(setup) + ["preerrno %d" % v, ln]))
                break


def crypt_line(entry, slot, phrase, setting, size="=", mode="s"):
    return "crypt %s %d %s %s %s %s" % (entry, slot, hx(phrase), hx(setting), size, mode)


def gensalt_line(entry, prefix, count, rbytes, nrbytes, outsize):
    return "gensalt %s %s %d %s %d %d" % (entry, hx(prefix), count, hx(rbytes),
                                          nrbytes, outsize)


def obj_line(slot, size=CD_SIZE, align=0, fill="z", seed=0):
    return "obj %d %d %d %s %d" % (slot, size, align, fill, seed)


def out_of(resp):
    """The bytes in the output field (up to NUL) or None."""
    o = resp.get("o", "-")
    return unhx(o)


def hash_of(resp):
    """Successful hash bytes or None when the call failed (NULL or token)."""
    if resp.get("r", "N") == "N":
        return None
    o = out_of(resp)
    if o is None or o[:1] == b"*":
        return None
    return o


def errno_of(resp):
    try:
        return int(resp.get("e", "0"))
    except ValueError:
        return 0


def rng_for(seed, *salt):
    return random.Random("%d/%s" % (seed, "/".join(str(s) for s in salt)))


def replay_obj(flavour, lines, note=""):
    return {"flavour": flavour, "lines": lines, "note": note}


def death_violation(acc, pid, death, flavour, inflight, what, setup=()):
    """A worker died on its own (sanitizer report, assert, signal) while the
    command line `inflight` was being executed."""
    kind = death.kind()
    frame = death.frame()
    key = "%s/%s/%s/%s" % (pid, kind, frame, what)
    acc.violation(key, "worker died (%s in %s) on: %s :: %s" % (
        kind, frame, inflight[:300], death.brief()[-600:].replace("\n", " | ")),
        replay_obj(flavour, list(setup) + [inflight], death.brief()))
    return key


def run_resilient(w, setup, lines, timeout=120.0, max_deaths=20, stop_on_death=False):
    """Run `setup` then `lines`; when the worker dies or hangs on line i, put
    the Death/Timeout object at position i, restart, replay `setup`, and go on
    with line i+1.  Returns a list parallel to `lines`."""
    out = [None] * len(lines)
    i = 0
    deaths = 0
    while i < len(lines):
        batch = list(setup) + lines[i:]
        res, end = w.run(batch, timeout)
        ns = len(setup)
        if len(res) < ns and end is None:
            raise pool.HarnessError("short response")
        got = res[ns:]
        for k, r in enumerate(got):
            out[i + k] = r
        if end is None:
            break
        if end.line < ns:
            raise pool.HarnessError("worker died during setup: %s" % (
                end.brief()[-500:] if isinstance(end, pool.Death) else "timeout"))
        out[i + len(got)] = end
        i = i + len(got) + 1
        deaths += 1
        if stop_on_death:
            break       # the rest of a history makes no sense without its state
        if deaths > max_deaths:
            for k in range(i, len(lines)):
                out[k] = pool.Timeout(k)   # give up: inconclusive
            break
    return out
