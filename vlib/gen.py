"""Grammar-aware generators, the independent tag classifier, the cost
estimator and the result grammars (DESIGN §3.5, C05, C06, C18).

Everything here is written from doc/crypt.5, crypt_checksalt.3 and
hashes.conf - it never calls the library."""
import random
import re

A64 = b"./0123456789ABCDEFGHIJKLMNOPQRSTUVWXYZabcdefghijklmnopqrstuvwxyz"
BF64 = b"./ABCDEFGHIJKLMNOPQRSTUVWXYZabcdefghijklmnopqrstuvwxyz0123456789"
HEXL = b"0123456789abcdef"
BADCH = set(b":;*!\\")
A64SET = set(A64)
# printable, passwd-safe, and not '$'
SAFE_EXTRA = bytes(c for c in range(0x21, 0x7F) if c not in BADCH and c != 0x24)
SAFE_ALL = bytes(c for c in range(0x21, 0x7F) if c not in BADCH)
NON_A64 = bytes(c for c in SAFE_EXTRA if c not in A64)

# (method, tag) in the order of hashes.conf (= dispatch order)
TAGS = [
    ("yescrypt", b"$y$"), ("gost_yescrypt", b"$gy$"), ("scrypt", b"$7$"),
    ("bcrypt", b"$2b$"), ("bcrypt_y", b"$2y$"), ("bcrypt_a", b"$2a$"),
    ("bcrypt_x", b"$2x$"), ("sha512crypt", b"$6$"), ("sha256crypt", b"$5$"),
    ("sha1crypt", b"$sha1"), ("sunmd5", b"$md5"), ("md5crypt", b"$1$"),
    ("nt", b"$3$"), ("bsdicrypt", b"_"), ("bigcrypt", b""), ("descrypt", b""),
]
METHODS = [m for m, _ in TAGS]
TAG = dict(TAGS)
STRONG = {"yescrypt", "gost_yescrypt", "scrypt", "bcrypt", "bcrypt_y",
          "bcrypt_a", "sha512crypt"}
DEFAULT_ORDER = ["yescrypt", "bcrypt", "sha512crypt"]   # DEFAULT flag in hashes.conf
MID = {m: i for i, m in enumerate(METHODS)}

SALT_INVALID, SALT_OK, SALT_LEGACY = 1, 0, 3


def has_bad_chars(s):
    return any(c <= 0x20 or c >= 0x7F or c in BADCH for c in s)


def classify(setting, enabled=None):
    """Independent dispatcher: which method does this setting select?
    None when no enabled method claims it."""
    en = METHODS if enabled is None else enabled
    for m, tag in TAGS:
        if m not in en:
            continue
        if tag:
            if setting.startswith(tag):
                return m
        else:
            if setting == b"" or (len(setting) >= 2 and setting[0] in A64SET
                                  and setting[1] in A64SET):
                return m
    return None


def checksalt_expect(setting, enabled=None):
    if setting is None or setting == b"" or has_bad_chars(setting):
        return SALT_INVALID
    m = classify(setting, enabled)
    if m is None:
        return SALT_INVALID
    return SALT_OK if m in STRONG else SALT_LEGACY


# reasons for which the generic front end refuses a request before any method sees it (the object is then left
# untouched); the other must_fail reasons are refusals by the method itself, after scratch space was handed out
GENERIC_REJECTS = {"null", "phrase-too-long", "bad-char", "unknown-tag"}


def must_fail(phrase, setting, enabled=None):
    """Requests that can never produce a hash (C05), independent of the
    library.  Returns a reason or None (= may succeed or fail)."""
    if phrase is None or setting is None:
        return "null"
    if len(phrase) >= 512:
        return "phrase-too-long"
    if has_bad_chars(setting):
        return "bad-char"
    if setting == b"":
        return "empty-setting"          # dispatched to the DES entry, which needs two salt characters
    if classify(setting, enabled) is None:
        return "unknown-tag"
    if yes_unsupported(setting):
        return "unsupported-parameter"
    for t in (b"$5$rounds=", b"$6$rounds="):
        if setting.startswith(t):
            # crypt(5): 1000 .. 999,999,999; a larger number (which a 32-bit truncation could fold back into range)
            # is malformed
            f = setting[len(t):].split(b"$", 1)[0]
            if f.isdigit() and int(f) > 999999999:
                return "cost-above-maximum"
    if setting[:3] in (b"$2a", b"$2b", b"$2x", b"$2y") and setting[3:4] == b"$" and (enabled is None or classify(setting, enabled)):
        # crypt(5): \$2[abxy]\$[0-9]{2}\$..., cost 04..31 - two decimal digits and nothing else
        f = setting[4:7]
        if len(f) == 3 and not (f[:2].isdigit() and f[2:3] == b"$" and 4 <= int(f[:2]) <= 31):
            return "bad-cost"
    if setting.startswith(b"$7$") and len(setting) > 14 and (enabled is None or "scrypt" in enabled):
        # the raw scrypt salt is everything between the 11 parameter characters and the LAST '$' (or the end):
        # crypt(5) gives it the alphabet [./A-Za-z0-9]; the library additionally lets '$' through.  Anything else
        # inside it is malformed.
        # (what follows a '$' whose next character is outside the alphabet is ignored by the library and by the
        # released versions alike: such a tail is not judged)
        rest = setting[14:]
        for i, c in enumerate(rest):
            if c in A64SET or c == 0x24:
                continue
            if i > 0 and rest[i - 1] == 0x24:
                break
            return "bad-salt-char"
    if setting.startswith(b"$sha1$"):
        # crypt(5): the sha1crypt cost is a decimal number of at most 4,294,967,295.  A negative one is malformed
        # (strtoul would read it as 2^64 - n), and so is one above the documented maximum.
        f = setting[6:].split(b"$", 1)[0]
        if f[:1] == b"-" and f[1:].isdigit():
            return "negative-cost"
        if f == b"" and b"$" in setting[6:]:
            return "empty-cost"             # "$sha1$$salt": no iteration count at all
        if f.isdigit() and int(f) > 2 ** 32 - 1:
            return "cost-above-maximum"
    return None


def yes_unsupported(setting):
    """A $y$/$gy$ setting whose parameter field decodes completely and asks for
    something crypt() cannot provide: a ROM (have & 8: crypt has no way to
    supply one) or a hash upgrade (have & 4, g >= 1: "support temporarily
    removed").  Such a setting describes a hash this library cannot compute and
    must fail closed.  Returns the reason or None."""
    if setting.startswith(b"$y$"):
        pos = 3
    elif setting.startswith(b"$gy$"):
        pos = 4
    else:
        return None
    for minv in (0, 1, 1):
        d = yes_dec_uint(setting, pos, minv)
        if not d:
            return None
        pos = d[1]
    if setting[pos:pos + 1] == b"$":
        return None
    d = yes_dec_uint(setting, pos, 1)
    if not d:
        return None
    have, pos = d
    vals = {}
    for bit, minv in ((1, 2), (2, 1), (4, 1), (8, 1)):
        if have & bit:
            d = yes_dec_uint(setting, pos, minv)
            if not d:
                return None
            vals[bit], pos = d
    if setting[pos:pos + 1] != b"$":
        return None
    if have & 8 and vals[8] <= 63:
        return "rom"
    if have & 4:
        return "upgrade"
    return None


def gen_yes_unsupported(rng, method):
    """a yescrypt-family setting that is well formed but asks for a ROM or a hash upgrade"""
    fl = rng.choice([b"j", b"j", b"/"])
    nl = rng.choice([2, 4, 6, 8, 12])
    rr = rng.choice([1, 8, 32])
    have = rng.choice([8, 8, 4, 12, 9, 10, 5, 15])
    params = fl + yes_enc_uint(nl, 1) + yes_enc_uint(rr, 1) + yes_enc_uint(have, 1)
    if have & 1:
        params += yes_enc_uint(rng.choice([2, 3]), 2)
    if have & 2:
        params += yes_enc_uint(rng.choice([1, 2]), 1)
    if have & 4:
        params += yes_enc_uint(rng.choice([1, 2, 5]), 1)
    if have & 8:
        params += yes_enc_uint(rng.choice([1, 2, 10, 20, 31, 40]), 1)
    salt = yes_encode64(bytes(rng.getrandbits(8) for _ in range(rng.choice([0, 8, 16, 32]))))
    return TAG[method] + params + b"$" + salt + rng.choice([b"", b"$", b"$" + rsalt(rng, 43)])


# ---------------------------------------------------------------- encoders

def enc64_le(value, nchars):
    out = bytearray()
    for _ in range(nchars):
        out.append(A64[value & 63])
        value >>= 6
    return bytes(out)


def yes_encode64(b):
    """yescrypt/scrypt salt encoding: little-endian 24-bit groups."""
    out = bytearray()
    i = 0
    while i < len(b):
        v = 0
        bits = 0
        while bits < 24 and i < len(b):
            v |= b[i] << bits
            bits += 8
            i += 1
        for _ in range(0, bits, 6):
            out.append(A64[v & 63])
            v >>= 6
    return bytes(out)


def yes_decode64(s):
    """Inverse of yes_encode64; None when not canonical."""
    out = bytearray()
    i = 0
    while i < len(s):
        v = 0
        bits = 0
        while i < len(s) and bits < 24:
            c = A64.find(s[i:i + 1])
            if c < 0:
                return None
            v |= c << bits
            bits += 6
            i += 1
        if bits < 12:
            return None
        while bits >= 8:
            out.append(v & 0xFF)
            v >>= 8
            bits -= 8
        if v:
            return None
    return bytes(out)


def yes_enc_uint(value, minv):
    """yescrypt variable-length number encoding (encode64_uint32)."""
    start, end, bits, chars = 0, 47, 0, 1
    if value < minv:
        return None
    value -= minv
    while True:
        count = (end + 1 - start) << bits
        if value < count:
            break
        if chars >= 6:
            return None
        start = end + 1
        end = start + (62 - end) // 2
        value -= count
        chars += 1
        bits += 6
    out = bytearray([A64[start + (value >> bits)]])
    while chars > 1:
        chars -= 1
        bits -= 6
        out.append(A64[(value >> bits) & 63])
    return bytes(out)


def yes_dec_uint(s, pos, minv):
    """-> (value, newpos) or None."""
    if pos >= len(s):
        return None
    c = A64.find(s[pos:pos + 1])
    if c < 0:
        return None
    pos += 1
    start, end, chars, bits = 0, 47, 1, 0
    v = minv
    while c > end:
        v += (end + 1 - start) << bits
        start = end + 1
        end = start + (62 - end) // 2
        chars += 1
        bits += 6
    v += (c - start) << bits
    while chars > 1:
        chars -= 1
        if pos >= len(s):
            return None
        c = A64.find(s[pos:pos + 1])
        if c < 0:
            return None
        pos += 1
        bits -= 6
        v += c << bits
    return v & 0xFFFFFFFF, pos


def bf_encode(b):
    out = bytearray()
    i = 0
    n = len(b)
    while i < n:
        c1 = b[i]; i += 1
        out.append(BF64[c1 >> 2])
        c1 = (c1 & 3) << 4
        if i >= n:
            out.append(BF64[c1]); break
        c2 = b[i]; i += 1
        c1 |= c2 >> 4
        out.append(BF64[c1])
        c1 = (c2 & 0x0F) << 2
        if i >= n:
            out.append(BF64[c1]); break
        c2 = b[i]; i += 1
        c1 |= c2 >> 6
        out.append(BF64[c1])
        out.append(BF64[c2 & 0x3F])
    return bytes(out)


# ---------------------------------------------------------------- cost

def _strtoul(s):
    """C strtoul(base 10) on bytes: (value mod 2^64, consumed)."""
    i = 0
    neg = False
    if i < len(s) and s[i:i + 1] in (b"+", b"-"):
        neg = s[i:i + 1] == b"-"
        i += 1
    j = i
    while j < len(s) and 0x30 <= s[j] <= 0x39:
        j += 1
    if j == i:
        return 0, 0
    v = int(s[i:j])
    if v > 2 ** 64 - 1:
        v = 2 ** 64 - 1
    elif neg:
        v = (-v) % 2 ** 64
    return v, j


def cost_units(setting, plen=8):
    """Rough native-microsecond estimate of hashing with this setting, from an
    independent lenient decoder.  Unparseable => 1 (the library will refuse
    quickly; if it does not, the watchdog catches it).  The estimate errs on
    the expensive side."""
    m = classify(setting)
    s = setting
    lf = 1 + plen / 48.0
    try:
        if m in ("sha256crypt", "sha512crypt"):
            r = 5000
            if s[3:].startswith(b"rounds="):
                r, _ = _strtoul(s[10:])
                if r > 999999999:
                    return 1
            return r * 1.2 * lf + 5
        if m == "sha1crypt":
            if not s.startswith(b"$sha1$"):
                return 1
            r, n = _strtoul(s[6:])
            return r * 1.0 * (1 + plen / 200.0) + 5
        if m == "sunmd5":
            r = 4096
            p = s[5:]
            if p.startswith(b"rounds="):
                a, _ = _strtoul(p[7:])
                if a > 0xFFFFFFFF:
                    return 1
                r = (4096 + a) & 0xFFFFFFFF
                # a wrapped sum is still treated as the un-wrapped cost: cheap
                # only when the library really runs few rounds, which the
                # watchdog tolerates either way
                if a > 0xFFFFF000:
                    r = a
            return r * 1.6 + 5
        if m == "md5crypt":
            return 1000 * lf
        if m == "nt":
            return 5
        if m in ("descrypt", "bigcrypt"):
            return 30 * (1 + plen // 8)
        if m == "bsdicrypt":
            if len(s) < 9:
                return 1
            c = 0
            for i in range(1, 5):
                x = A64.find(s[i:i + 1])
                if x < 0:
                    return 1
                c |= x << ((i - 1) * 6)
            return max(c, 1) * 0.6 + plen
        if m in ("bcrypt", "bcrypt_a", "bcrypt_x", "bcrypt_y"):
            if len(s) < 7 or not (0x30 <= s[4] <= 0x33 and 0x30 <= s[5] <= 0x39):
                return 1
            lg = (s[4] - 0x30) * 10 + (s[5] - 0x30)
            if lg > 31:
                return 1
            return (1 << lg) * 160.0 + 300
        if m == "scrypt":
            if len(s) < 14:
                return 1
            nl = A64.find(s[3:4])
            if nl < 1:
                return 1
            r = p = 0
            for i in range(5):
                x = A64.find(s[4 + i:5 + i]); y = A64.find(s[9 + i:10 + i])
                if x < 0 or y < 0:
                    return 1
                r |= x << (6 * i); p |= y << (6 * i)
            return (1 << nl) * max(r, 1) * max(p, 1) * 0.9 + 50
        if m in ("yescrypt", "gost_yescrypt"):
            pos = 3 if m == "yescrypt" else 4
            d = yes_dec_uint(s, pos, 0)
            if not d:
                return 1
            fl, pos = d
            d = yes_dec_uint(s, pos, 1)
            if not d:
                return 1
            nl, pos = d
            d = yes_dec_uint(s, pos, 1)
            if not d:
                return 1
            r, pos = d
            p, t = 1, 0
            if s[pos:pos + 1] != b"$":
                d = yes_dec_uint(s, pos, 1)
                if not d:
                    return 1
                have, pos = d
                if have & 1:
                    d = yes_dec_uint(s, pos, 2)
                    if not d:
                        return 1
                    p, pos = d
                if have & 2:
                    d = yes_dec_uint(s, pos, 1)
                    if not d:
                        return 1
                    t, pos = d
            if nl > 40:
                return 1e18
            return (1 << nl) * r * max(p, 1) * (t + 1) * 0.9 + 100
    except Exception:
        return 1
    return 1


# ---------------------------------------------------------------- settings

def rsalt(rng, n, alphabet=A64):
    return bytes(rng.choice(alphabet) for _ in range(n))


def tail(rng, kind):
    """Material after the terminating '$' (where a hash would be)."""
    if kind == 0:
        return b""
    if kind == 1:
        return rsalt(rng, rng.choice([1, 5, 22, 43, 86]))
    return rsalt(rng, rng.randint(1, 30), SAFE_EXTRA)


def gen_valid(rng, method, cheap=True):
    """One setting the documentation says the method accepts, with a form
    label.  Cost parameters are small.  Returns (setting, form)."""
    r = rng
    if method in ("descrypt", "bigcrypt"):
        salt = rsalt(r, 2)
        if method == "descrypt":
            k = r.choice(["2", "2+tail", "13", "2+xtail"])
            if k == "2":
                return salt, "des/2"
            if k == "2+tail":
                return salt + rsalt(r, r.randint(1, 10)), "des/2+tail"
            if k == "13":
                return salt + rsalt(r, 11), "des/13"
            return salt + rsalt(r, r.randint(1, 11), SAFE_ALL), "des/2+xtail"
        k = r.choice(["14", "24", "35", "long", "xtail"])
        if k == "14":
            return salt + rsalt(r, 12), "big/14"
        if k == "24":
            return salt + rsalt(r, 22), "big/24"
        if k == "35":
            return salt + rsalt(r, 33), "big/35"
        if k == "long":
            return salt + rsalt(r, r.randint(13, 176)), "big/long"
        return salt + rsalt(r, r.randint(12, 60), SAFE_ALL), "big/xtail"
    if method == "bsdicrypt":
        cnt = r.choice([1, 2, 3, 25, 64, 725, 999, r.randint(1, 4095)])
        s = b"_" + enc64_le(cnt, 4) + rsalt(r, 4)
        k = r.choice(["9", "9+tail", "20", "9+xtail"])
        if k == "9":
            return s, "bsdi/9"
        if k == "9+tail":
            return s + rsalt(r, r.randint(1, 10)), "bsdi/9+tail"
        if k == "20":
            return s + rsalt(r, 11), "bsdi/20"
        return s + rsalt(r, r.randint(1, 30), SAFE_ALL), "bsdi/9+xtail"
    if method == "md5crypt":
        n = r.choice([0, 1, 2, 7, 8, 9, 12, 16, 40])
        xa = r.random() < 0.25
        salt = rsalt(r, n, SAFE_EXTRA if xa else A64)
        t = r.choice(["", "$", "$h", "$x"])
        s = b"$1$" + salt
        if t == "$":
            s += b"$"
        elif t == "$h":
            s += b"$" + rsalt(r, 22)
        elif t == "$x":
            s += b"$" + tail(r, 2)
        return s, "md5/salt%s%s/%s" % ("x" if xa else "", _lb(n, 8), t or "none")
    if method in ("sha256crypt", "sha512crypt"):
        tg = TAG[method]
        dl = 43 if method == "sha256crypt" else 86
        rk = r.choice(["none", "none", "min", "def", "rnd", "rnd"])
        rs = b""
        if rk == "min":
            rs = b"rounds=1000$"
        elif rk == "def":
            rs = b"rounds=5000$"
        elif rk == "rnd":
            rs = b"rounds=%d$" % r.choice([1001, 1999, 2048, 4999, 5001, r.randint(1000, 6000)])
        n = r.choice([0, 1, 2, 8, 15, 16, 17, 20, 32, 100])
        xa = r.random() < 0.25
        salt = rsalt(r, n, SAFE_EXTRA if xa else A64)
        if rs == b"" and salt.startswith(b"rounds="):
            salt = b"x" + salt[1:]
        if rs != b"" and r.random() < (0.3 if rk == "def" else 0.05):
            salt = b"rounds=%d" % r.choice([1000, 5000, 77777])      # a salt that looks like a rounds field
            n = len(salt)
        t = r.choice(["", "$", "$h", "$x"])
        s = tg + rs + salt
        if t == "$":
            s += b"$"
        elif t == "$h":
            s += b"$" + rsalt(r, dl)
        elif t == "$x":
            s += b"$" + tail(r, 2)
        return s, "%s/r-%s/salt%s%s/%s" % (method[:6], rk, "x" if xa else "", _lb(n, 16), t or "none")
    if method == "sha1crypt":
        it = r.choice([0, 1, 2, 3, 10, 99, 100, 200, r.randint(1, 300)])
        isp = r.choice(["d", "d", "d", "+", "0", "e"])
        if isp == "d":
            its = b"%d" % it
        elif isp == "+":
            its = b"+%d" % it
        elif isp == "0":
            its = b"0%d" % it
        else:
            its = b""
        n = r.choice([1, 2, 8, 11, 12, 16, 31, 32, 48, 63, 64])
        t = r.choice(["", "$", "$h", "$x"])
        s = b"$sha1$" + its + b"$" + rsalt(r, n)
        if t == "$":
            s += b"$"
        elif t == "$h":
            s += b"$" + rsalt(r, 28)
        elif t == "$x":
            s += b"$" + tail(r, 2)
        return s, "sha1/it-%s/salt%s/%s" % (isp, _lb(n, 64), t or "none")
    if method == "sunmd5":
        sep = r.choice([b"$", b","])
        rk = r.choice(["none", "none", "one", "rnd"])
        rs = b""
        if rk == "one":
            rs = b"rounds=1$"
        elif rk == "rnd":
            rs = b"rounds=%d$" % r.choice([2, 9, 10, 99, 100, 904, r.randint(1, 1500)])
        n = r.choice([0, 1, 4, 8, 9, 16, 40, 100])
        if r.random() < 0.2:
            # the salt has no length limit of its own: aim at total lengths around what still fits
            n = max(0, r.randint(350, 366) - 5 - len(rs))
        t = r.choice(["", "$", "$$", "$h", "$x", "$$h"])
        s = b"$md5" + sep + rs + rsalt(r, n)
        if t == "$":
            s += b"$"
        elif t == "$$":
            s += b"$$"
        elif t == "$h":
            s += b"$" + rsalt(r, 22)
        elif t == "$$h":
            s += b"$$" + rsalt(r, 22)
        elif t == "$x":
            s += b"$" + rsalt(r, 1, SAFE_EXTRA) + tail(r, 2)
        return s, "sunmd5/%s/r-%s/salt%s/%s" % ("c" if sep == b"," else "d", rk, _lb(n, 8), t or "none")
    if method == "nt":
        k = r.choice(["bare", "$", "hash", "junk"])
        if k == "bare":
            return b"$3$", "nt/bare"
        if k == "$":
            return b"$3$$", "nt/$"
        if k == "hash":
            return b"$3$$" + rsalt(r, 32, HEXL), "nt/hash"
        return b"$3$" + rsalt(r, r.randint(1, 40), SAFE_ALL), "nt/junk"
    if method in ("bcrypt", "bcrypt_a", "bcrypt_x", "bcrypt_y"):
        c = r.choice([4, 4, 4, 5])
        raw = bytes(r.getrandbits(8) for _ in range(16))
        salt = bf_encode(raw)[:22]
        k = r.choice(["canon", "noncanon", "canon"])
        if k == "noncanon":
            salt = salt[:21] + bytes([r.choice(BF64)])
        t = r.choice(["", "h", "x", "short"])
        s = TAG[method] + b"%02d$" % c + salt
        if t == "h":
            s += rsalt(r, 31, BF64)
        elif t == "x":
            s += rsalt(r, r.randint(1, 40), SAFE_ALL)
        elif t == "short":
            s += rsalt(r, r.randint(1, 30), BF64)
        return s, "%s/c%02d/%s/%s" % (method, c, k, t or "none")
    if method == "scrypt":
        nl = r.choice([1, 2, 3, 4, 6, 8, 10])
        rr = r.choice([1, 1, 2, 3, 8])
        p = r.choice([1, 1, 2, 3])
        # raw scrypt salts have no length limit of their own: go up to what fits the output field
        n = r.choice([0, 1, 8, 16, 22, 43, 86, 120, 200, 270, 284, 285, 290, 300, 320, 325, 326, 340,
                      r.randint(310, 330)])
        sk = r.choice(["a64", "a64", "dollar", "dollars"])
        salt = rsalt(r, n)
        if sk == "dollar" and n >= 3:
            i = r.randint(1, n - 2)
            salt = salt[:i] + b"$" + salt[i + 1:]
        elif sk == "dollars" and n >= 8:
            # '$' is an ordinary character of the raw salt: several of them, also adjacent and at the ends
            for i in r.sample(range(n), r.choice([2, 3, 4])):
                salt = salt[:i] + b"$" + salt[i + 1:]
        else:
            sk = "a64"
        t = r.choice(["", "$", "$h", "$x"])
        s = b"$7$" + A64[nl:nl + 1] + enc64_le(rr, 5) + enc64_le(p, 5) + salt
        if t == "$":
            s += b"$"
        elif t == "$h":
            s += b"$" + rsalt(r, 43)
        elif t == "$x":
            # scrypt ignores what follows a '$' only when the very next
            # character is outside its salt alphabet
            s += b"$" + rsalt(r, 1, NON_A64) + tail(r, 2)
        return s, "scrypt/N%d/r%d/p%d/salt-%s%s/%s" % (nl, rr, p, sk, _lb(n, 43), t or "none")
    if method in ("yescrypt", "gost_yescrypt"):
        fl = r.choice([b"j", b"j", b"j", b"/", b"."])
        nl = r.choice([2, 3, 4, 6, 8, 10, 11]) if fl != b"." else r.choice([1, 2, 4, 8])
        rr = r.choice([1, 2, 8, 8, 32]) if nl <= 8 else r.choice([1, 8])
        if nl <= 4 and r.random() < 0.35:
            rr = r.choice([48, 49, 50, 63, 64, 65, 82, 100, 113])      # numbers written with two characters
        hk = r.choice(["none", "none", "p", "t", "pt"])
        params = fl + yes_enc_uint(nl, 1) + yes_enc_uint(rr, 1)
        big2 = nl <= 3 and rr <= 8 and r.random() < 0.4
        if hk == "p":
            params += yes_enc_uint(1, 1) + yes_enc_uint(r.choice([50, 51, 64, 70]) if big2 else r.choice([2, 3]), 2)
        elif hk == "t":
            params += yes_enc_uint(2, 1) + yes_enc_uint(r.choice([48, 49, 50, 66]) if big2 else r.choice([1, 2]), 1)
        elif hk == "pt":
            params += yes_enc_uint(3, 1) + yes_enc_uint(2, 2) + yes_enc_uint(1, 1)
        nb = r.choice([0, 1, 2, 3, 8, 15, 16, 17, 32, 63, 64])
        salt = yes_encode64(bytes(r.getrandbits(8) for _ in range(nb)))
        t = r.choice(["", "$", "$h", "$x"])
        s = TAG[method] + params + b"$" + salt
        if t == "$":
            s += b"$"
        elif t == "$h":
            s += b"$" + rsalt(r, 43)
        elif t == "$x":
            s += b"$" + rsalt(r, r.randint(1, 30), SAFE_EXTRA)
        return s, "%s/%s/N%d/r%d/h-%s/salt%s/%s" % (
            method[:4], fl.decode(), nl, rr, hk, _lb(nb, 16), t or "none")
    raise ValueError(method)


def _lb(n, ref):
    """length bucket label relative to the method's nominal salt size."""
    if n == 0:
        return "0"
    if n < ref:
        return "<"
    if n == ref:
        return "="
    return ">"


PHRASE_LENS = [0, 1, 7, 8, 9, 15, 16, 17, 63, 64, 65, 71, 72, 73, 127, 128, 129,
               255, 256, 510, 511]


def gen_phrase(rng, length=None, kind=None):
    if length is None:
        length = rng.choice(PHRASE_LENS) if rng.random() < 0.7 else rng.randint(0, 511)
    kind = kind or rng.choice(["ascii", "ascii", "ff", "bin", "utf8", "7bit"])
    if kind == "ascii":
        return bytes(rng.randint(0x20, 0x7E) for _ in range(length))
    if kind == "ff":
        return b"\xff" * length
    if kind == "bin":
        return bytes(rng.randint(1, 255) for _ in range(length))
    if kind == "7bit":
        return bytes(rng.randint(1, 127) for _ in range(length))
    s = "".join(rng.choice("aé漢ß€z") for _ in range(length)).encode("utf-8")
    return s[:length]


# ---------------------------------------------------------------- results

def split_hash(method, h):
    """(setting part, digest part, digest alphabet) of a successful result,
    or None when the result has not the method's outer shape."""
    if method in ("descrypt", "bigcrypt"):
        if len(h) < 13:
            return None
        return h[:2], h[2:], A64
    if method == "bsdicrypt":
        if len(h) != 20:
            return None
        return h[:9], h[9:], A64
    if method == "nt":
        if not h.startswith(b"$3$$"):
            return None
        return h[:4], h[4:], HEXL
    if method in ("bcrypt", "bcrypt_a", "bcrypt_x", "bcrypt_y"):
        if len(h) != 60:
            return None
        return h[:29], h[29:], BF64
    i = h.rfind(b"$")
    if i < 0:
        return None
    return h[:i + 1], h[i + 1:], A64


_A = rb"[./0-9A-Za-z]"
_P = rb"[\x21-\x23\x25-\x29\x2b-\x39\x3c-\x5b\x5d-\x7e]"   # safe, not '$'
_Q = rb"[\x21-\x29\x2b-\x39\x3c-\x5b\x5d-\x7e]"            # safe incl. '$'
GRAMMAR = {
    "descrypt": re.compile(rb"^" + _A + rb"{13}$"),
    "bigcrypt": re.compile(rb"^" + _A + rb"{2}(" + _A + rb"{11}){1,16}$"),
    "bsdicrypt": re.compile(rb"^_" + _A + rb"{19}$"),
    "md5crypt": re.compile(rb"^\$1\$" + _P + rb"{0,8}\$" + _A + rb"{22}$"),
    "sha256crypt": re.compile(rb"^\$5\$(rounds=[1-9][0-9]{3,8}\$)?" + _P + rb"{0,16}\$" + _A + rb"{43}$"),
    "sha512crypt": re.compile(rb"^\$6\$(rounds=[1-9][0-9]{3,8}\$)?" + _P + rb"{0,16}\$" + _A + rb"{86}$"),
    "sha1crypt": re.compile(rb"^\$sha1\$(0|[1-9][0-9]*)\$" + _A + rb"+\$" + _A + rb"{28}$"),
    "sunmd5": re.compile(rb"^\$md5[$,](rounds=[1-9][0-9]*\$)?" + _A + rb"*\$?\$" + _A + rb"{22}$"),
    "nt": re.compile(rb"^\$3\$\$[0-9a-f]{32}$"),
    "bcrypt": re.compile(rb"^\$2b\$[0-3][0-9]\$[./A-Za-z0-9]{53}$"),
    "bcrypt_a": re.compile(rb"^\$2a\$[0-3][0-9]\$[./A-Za-z0-9]{53}$"),
    "bcrypt_x": re.compile(rb"^\$2x\$[0-3][0-9]\$[./A-Za-z0-9]{53}$"),
    "bcrypt_y": re.compile(rb"^\$2y\$[0-3][0-9]\$[./A-Za-z0-9]{53}$"),
    "scrypt": re.compile(rb"^\$7\$" + _A + rb"{11}" + _Q + rb"*\$" + _A + rb"{43}$"),
    "yescrypt": re.compile(rb"^\$y\$" + _A + rb"+\$" + _A + rb"*\$" + _A + rb"{43}$"),
    "gost_yescrypt": re.compile(rb"^\$gy\$" + _A + rb"+\$" + _A + rb"*\$" + _A + rb"{43}$"),
}


def wellformed(method, h):
    """None when h has the documented shape of a `method` hash; else a short
    reason (C06)."""
    if h is None:
        return "null"
    if len(h) >= 384:
        return "too-long"
    if h[:1] == b"*":
        return "starts-with-star"
    if has_bad_chars(h):
        return "bad-char"
    if not GRAMMAR[method].match(h):
        return "shape"
    if method in ("scrypt", "yescrypt", "gost_yescrypt", "sha256crypt") and \
            len(h[h.rfind(b"$") + 1:]) != 43:
        return "digest-length"
    return None


def result_method(setting, plen):
    """Which method's *shape* a successful result must have."""
    m = classify(setting)
    if m == "bigcrypt":
        # bigcrypt forwards to descrypt for long phrases with short settings;
        # for phrases of at most 8 bytes both produce the 13-character form
        if len(setting) <= 13 and plen > 8:
            return "descrypt"
        return "bigcrypt"
    return m


# ---------------------------------------------------------------- mutation

STRETCH_LENS = [17, 33, 64, 65, 66, 100, 128, 200, 300, 340, 346, 347, 348, 350,
                375, 376, 377, 383, 384, 385, 400, 511, 512, 1000, 5000, 32400, 40000]


def _longest_run(s, alphabet):
    best = (0, 0)
    i = 0
    n = len(s)
    while i < n:
        if s[i] in alphabet:
            j = i
            while j < n and s[j] in alphabet:
                j += 1
            if j - i > best[1] - best[0]:
                best = (i, j)
            i = j
        else:
            i += 1
    return best


def _last_run(s, alphabet):
    """the last run of alphabet characters that is followed by '$' or the end
    (the salt field of most settings)"""
    n = len(s)
    j = n
    while j > 0 and s[j - 1] == 0x24:
        j -= 1
    i = j
    while i > 0 and s[i - 1] in alphabet:
        i -= 1
    return (i, j)


def mutate(rng, s, long_ok=True):
    """Field-aware mutation of a (mostly valid) setting: returns (bytes, label)."""
    r = rng
    k = r.choice(["stretch-last", "stretch-last", "stretch-longest", "trunc", "byte",
                  "dup-dollar", "drop-dollar", "append", "insert", "swapcase-tag",
                  "digit", "ins-bad", "splice", "saltpunct", "saltpunct"])
    if k == "saltpunct":
        # one character of the salt field replaced by a passwd(5)-safe character outside the base-64 alphabet:
        # the characters sitting between the alphabet's ASCII runs ( [ ] ^ _ ` @ : is excluded ) first of all
        runs, i = [], 0
        a = set(A64)
        while i < len(s):
            if s[i] in a:
                j = i
                while j < len(s) and s[j] in a:
                    j += 1
                if j - i >= 2:
                    runs.append((i, j))
                i = j
            else:
                i += 1
        if not runs:
            return s, k
        i, j = r.choice(runs)
        q = r.randrange(i, j)
        c = r.choice(b"[]^_`@{|}~-+=,<>?#%&()\"") if r.random() < 0.8 else r.choice(NON_A64)
        return s[:q] + bytes([c]) + s[q + 1:], "saltpunct-%02x" % c
    if k in ("stretch-last", "stretch-longest"):
        a = set(A64)
        i, j = _last_run(s, a) if k == "stretch-last" else _longest_run(s, a)
        lens = STRETCH_LENS if long_ok else STRETCH_LENS[:12]
        L = r.choice(lens)
        fillc = rsalt(r, 1) if r.random() < 0.3 else None
        body = (fillc * L) if fillc else rsalt(r, L)
        return s[:i] + body + s[j:], "%s-%d" % (k, L)
    if k == "trunc":
        if not s:
            return s, k
        return s[:r.randrange(len(s))], k
    if k == "byte":
        if not s:
            return s, k
        i = r.randrange(len(s))
        c = r.choice([r.randint(1, 255), r.choice(SAFE_ALL), 0x24, 0x2c, 0x3d])
        return s[:i] + bytes([c]) + s[i + 1:], k
    if k == "dup-dollar":
        i = s.find(b"$", r.randrange(len(s) + 1))
        if i < 0:
            return s + b"$", k
        return s[:i] + b"$" + s[i:], k
    if k == "drop-dollar":
        idx = [i for i, c in enumerate(s) if c == 0x24]
        if not idx:
            return s, k
        i = r.choice(idx)
        return s[:i] + s[i + 1:], k
    if k == "append":
        L = r.choice([1, 30, 100, 300, 383, 384, 1000] + ([20000] if long_ok else []))
        al = r.choice([A64, SAFE_ALL, b"$", b"$."])
        return s + rsalt(r, L, al), "append-%d" % L
    if k == "insert":
        i = r.randrange(len(s) + 1)
        return s[:i] + rsalt(r, r.randint(1, 8), SAFE_ALL) + s[i:], k
    if k == "swapcase-tag":
        return s[:6].swapcase() + s[6:], k
    if k == "digit":
        idx = [i for i, c in enumerate(s) if 0x30 <= c <= 0x39]
        if not idx:
            return s, k
        i = r.choice(idx)
        return s[:i] + bytes([r.choice(b"0123456789")]) + s[i + 1:], k
    if k == "ins-bad":
        i = r.randrange(len(s) + 1)
        c = r.choice(b":;*!\\ \t\n\x7f\x80\xff\x01")
        return s[:i] + bytes([c]) + s[i:], k
    # splice two settings
    return s[:r.randrange(len(s) + 1)] + s[r.randrange(len(s) + 1):], "splice"


def random_setting(rng):
    r = rng
    k = r.choice(["printable", "bytes", "tag+printable", "tag+bytes", "empty", "star"])
    n = r.choice([0, 1, 2, 3, 8, 13, 20, 60, 200, 383, 384, 385, 1000])
    if k == "printable":
        return rsalt(r, n, SAFE_ALL), "rand-printable"
    if k == "bytes":
        return bytes(r.randint(1, 255) for _ in range(n)), "rand-bytes"
    if k == "tag+printable":
        return r.choice(TAGS)[1] + rsalt(r, n, SAFE_ALL), "tag+printable"
    if k == "tag+bytes":
        return r.choice(TAGS)[1] + bytes(r.randint(1, 255) for _ in range(n)), "tag+bytes"
    if k == "empty":
        return b"", "empty"
    return r.choice([b"*", b"*0", b"*1", b"*0x", b"!", b"x"]), "star"
