"""Independent decoder of generated settings (cost and salt fields) and the
documented count -> cost function (DESIGN C10-C12).  Written from crypt.5 /
crypt_gensalt.3 and the property statements."""
import re

from . import gen

A64 = gen.A64


def _a64val(s):
    v = 0
    for i, c in enumerate(s):
        x = A64.find(bytes([c]))
        if x < 0:
            return None
        v |= x << (6 * i)
    return v


def decode(method, g):
    """-> dict(cost=..., salt=bytes (the salt field's characters)) or None when g
    has not the shape crypt_gensalt documents for the method."""
    if method in ("descrypt", "bigcrypt"):
        if len(g) == 2 or (len(g) == 14 and g[2:] == b"." * 12):
            if all(c in gen.A64SET for c in g[:2]):
                return {"cost": 25, "salt": g[:2]}
        return None
    if method == "bsdicrypt":
        if len(g) != 9 or g[:1] != b"_":
            return None
        c = _a64val(g[1:5])
        s = _a64val(g[5:9])
        if c is None or s is None:
            return None
        return {"cost": c, "salt": g[5:9]}
    if method == "md5crypt":
        m = re.match(rb"^\$1\$([./0-9A-Za-z]*)$", g)
        return {"cost": 1000, "salt": m.group(1)} if m else None
    if method in ("sha256crypt", "sha512crypt"):
        t = b"5" if method == "sha256crypt" else b"6"
        m = re.match(rb"^\$" + t + rb"\$(?:rounds=([1-9][0-9]*)\$)?([./0-9A-Za-z]*)$", g)
        if not m:
            return None
        return {"cost": int(m.group(1)) if m.group(1) else 5000, "explicit": m.group(1) is not None,
                "salt": m.group(2)}
    if method == "sha1crypt":
        m = re.match(rb"^\$sha1\$([1-9][0-9]*)\$([./0-9A-Za-z]*)\$$", g)
        return {"cost": int(m.group(1)), "salt": m.group(2)} if m else None
    if method == "sunmd5":
        m = re.match(rb"^\$md5,rounds=([1-9][0-9]*)\$([./0-9A-Za-z]*)\$$", g)
        return {"cost": int(m.group(1)), "salt": m.group(2)} if m else None
    if method == "nt":
        return {"cost": 1, "salt": b""} if g == b"$3$" else None
    if method in ("bcrypt", "bcrypt_a", "bcrypt_x", "bcrypt_y"):
        m = re.match(rb"^" + re.escape(gen.TAG[method]) + rb"([0-9]{2})\$([./A-Za-z0-9]{22})$", g)
        return {"cost": int(m.group(1)), "salt": m.group(2)} if m else None
    if method == "scrypt":
        if len(g) < 14 or g[:3] != b"$7$":
            return None
        nl = A64.find(g[3:4])
        r = _a64val(g[4:9])
        p = _a64val(g[9:14])
        if nl < 0 or r is None or p is None:
            return None
        if not all(c in gen.A64SET for c in g[14:]):
            return None
        return {"cost": (nl, r, p), "salt": g[14:]}
    if method in ("yescrypt", "gost_yescrypt"):
        tag = gen.TAG[method]
        if not g.startswith(tag):
            return None
        pos = len(tag)
        d = gen.yes_dec_uint(g, pos, 0)
        if not d:
            return None
        fl, pos = d
        d = gen.yes_dec_uint(g, pos, 1)
        if not d:
            return None
        nl, pos = d
        d = gen.yes_dec_uint(g, pos, 1)
        if not d:
            return None
        r, pos = d
        p, t = 1, 0
        if g[pos:pos + 1] != b"$":
            d = gen.yes_dec_uint(g, pos, 1)
            if not d:
                return None
            have, pos = d
            if have & 1:
                d = gen.yes_dec_uint(g, pos, 2)
                if not d:
                    return None
                p, pos = d
            if have & 2:
                d = gen.yes_dec_uint(g, pos, 1)
                if not d:
                    return None
                t, pos = d
            if have & ~3:
                return None
        if g[pos:pos + 1] != b"$":
            return None
        salt = g[pos + 1:]
        if not all(c in gen.A64SET for c in salt):
            return None
        return {"cost": (fl, nl, r, p, t), "salt": salt}
    return None


def clamp(x, lo, hi):
    return max(lo, min(hi, x))


def expected_cost(method, count, rbytes):
    """The documented cost for an *accepted* count (the caller checks
    acceptance separately).  Returns a predicate description:
    ('eq', value) | ('range', lo, hi) | ('eq', tuple)."""
    if method in ("sha256crypt", "sha512crypt"):
        c = 5000 if count == 0 else clamp(count, 1000, 999999999)
        return ("eq", c)
    if method == "bsdicrypt":
        c = 725 if count == 0 else min(count, 2 ** 24 - 1)
        return ("eq", c | 1)
    if method == "sha1crypt":
        c = 262144 if count == 0 else clamp(count, 4, 2 ** 32 - 1)
        rnd = int.from_bytes(rbytes[:4], "little") if len(rbytes) >= 4 else 0
        return ("eq", c - (rnd % (c // 4)))
    if method == "sunmd5":
        c = clamp(count, 32768, 2 ** 32 - 1 - 65536)
        b0 = rbytes[0] if len(rbytes) > 0 else 0
        b1 = rbytes[1] if len(rbytes) > 1 else 0
        return ("eq", c + 256 * b0 + b1)
    if method in ("bcrypt", "bcrypt_a", "bcrypt_y"):
        return ("eq", 5 if count == 0 else count)
    if method in ("yescrypt", "gost_yescrypt"):
        c = 5 if count == 0 else count
        if c < 3:
            return ("eq", (47, c + 9, 8, 1, 0))
        return ("eq", (47, c + 7, 32, 1, 0))
    if method == "scrypt":
        c = 7 if count == 0 else count
        return ("eq", (c + 7, 32, 1))
    if method == "md5crypt":
        return ("eq", 1000)
    if method == "nt":
        return ("eq", 1)
    if method in ("descrypt", "bigcrypt"):
        return ("eq", 25)
    return None


# how many random bytes a salt field of L characters encodes, and from which
# offset of rbytes (property C12)
def consumed_window(method, salt_len):
    if method in ("descrypt", "bigcrypt"):
        return 0, 2, "low6"
    if method == "bsdicrypt":
        return 0, 3, "all"
    if method in ("md5crypt", "sha256crypt", "sha512crypt"):
        return 0, salt_len * 3 // 4, "all"
    if method == "sha1crypt":
        return 4, salt_len * 3 // 4, "all"
    if method == "sunmd5":
        return 2, salt_len * 3 // 4, "all"
    if method.startswith("bcrypt"):
        return 0, 16, "all"
    if method in ("scrypt", "yescrypt", "gost_yescrypt"):
        return 0, salt_len * 6 // 8, "all"
    return 0, 0, "all"


def hashes_conf_nrbytes(path):
    out = {}
    with open(path) as f:
        for ln in f:
            if ln.startswith("#") or not ln.strip():
                continue
            t = ln.split()
            if len(t) >= 3 and t[2].isdigit():
                out[t[0]] = int(t[2])
    return out
