"""Worker processes and parallel fan-out (DESIGN §3.2)."""
import multiprocessing
import os
import select
import signal
import subprocess
import tempfile
import time

from . import build

NPROC = build.NPROC

SAN_ENV = {
    "ASAN_OPTIONS": "abort_on_error=1:detect_leaks=0:allocator_may_return_null=1:"
                    "handle_abort=1:print_legend=0:detect_stack_use_after_return=0",
    "UBSAN_OPTIONS": "print_stacktrace=1:halt_on_error=1:abort_on_error=1",
    "MSAN_OPTIONS": "abort_on_error=1:print_stats=0",
    "TSAN_OPTIONS": "halt_on_error=0:report_signal_unsafe=0:exitcode=0:history_size=4",
    "LD_BIND_NOW": "1",
}


class HarnessError(Exception):
    """The harness itself misbehaved (protocol error...).  Never a violation."""


class Death:
    """A worker died on its own while a command was in flight."""

    def __init__(self, rc, stderr, line):
        self.rc = rc
        self.stderr = stderr
        self.line = line

    def kind(self):
        s = self.stderr
        if "runtime error:" in s:
            import re
            m = re.search(r"runtime error: ([a-z -]+)", s)
            return "ubsan:" + (m.group(1).strip().replace(" ", "-")[:40] if m else "other")
        if "Assertion" in s and "failed" in s:
            return "assert"
        if "AddressSanitizer" in s:
            for k in ("heap-buffer-overflow", "stack-buffer-overflow",
                      "global-buffer-overflow", "heap-use-after-free",
                      "stack-use-after-return", "SEGV", "negative-size-param",
                      "memcpy-param-overlap", "strcpy-param-overlap",
                      "attempting double-free", "attempting free",
                      "dynamic-stack-buffer-overflow", "requested allocation size",
                      "stack-overflow", "unknown-crash"):
                if k in s:
                    return "asan:" + k.replace(" ", "-")
            return "asan:other"
        if "runtime error:" in s:
            import re
            m = re.search(r"runtime error: ([a-z -]+)", s)
            return "ubsan:" + (m.group(1).strip().replace(" ", "-")[:40] if m else "other")
        if "MemorySanitizer" in s:
            return "msan:use-of-uninitialized-value"
        if "ThreadSanitizer" in s:
            import re
            m = re.search(r"SUMMARY: ThreadSanitizer: ([A-Za-z-]+(?: race)?)", s)
            return "tsan:" + (m.group(1).replace(" ", "-") if m else "other")
        if "Assertion" in s and "failed" in s:
            return "assert"
        if self.rc is not None and self.rc < 0:
            try:
                return "signal:" + signal.Signals(-self.rc).name
            except ValueError:
                return "signal:%d" % -self.rc
        return "exit:%s" % self.rc

    def frame(self):
        """First library frame named in the report (for violation keys)."""
        import re
        for m in re.finditer(r"#\d+ 0x[0-9a-f]+ in (\S+) (\S+)", self.stderr):
            fn, loc = m.group(1), m.group(2)
            if "/lib/" in loc and "/harness/" not in loc and "sanitizer" not in loc:
                return fn
        for m in re.finditer(r"#\d+ (\S+) (\S+) \(", self.stderr):
            fn, loc = m.group(1), m.group(2)
            if "/lib/" in loc and "/harness/" not in loc and "sanitizer" not in loc:
                return fn
        m = re.search(r"Assertion `[^']*' failed", self.stderr)
        if m:
            m2 = re.search(r": (\w+): Assertion", self.stderr)
            if m2:
                return m2.group(1)
        m = re.search(r"(\S+\.c):\d+:\d+: runtime error", self.stderr)
        if m:
            return os.path.basename(m.group(1))
        return "?"

    def brief(self):
        s = self.stderr
        for mark in ("runtime error:", "ERROR: ", "WARNING: MemorySanitizer", "Assertion"):
            i = s.find(mark)
            if i >= 0:
                j = s.rfind("\n", 0, i)
                return s[j + 1:j + 2600]
        return s[-2600:]


class Timeout:
    def __init__(self, line):
        self.line = line


def parse_response(text):
    parts = text.rstrip("\n").split(" ")
    if parts[0] != "ok":
        raise HarnessError("worker said: " + text.strip()[:300])
    d = {}
    for p in parts[1:]:
        k, _, v = p.partition("=")
        d[k] = v
    return d


class Worker:
    def __init__(self, path, env=None):
        self.path = path
        self.env = dict(os.environ)
        self.env.update(SAN_ENV)
        if env:
            self.env.update(env)
        self.proc = None
        self.errf = None
        self.buf = b""
        self.starts = 0

    def start(self):
        self.stop()
        self.errf = tempfile.TemporaryFile(dir="/var/tmp")
        self.proc = subprocess.Popen([self.path], stdin=subprocess.PIPE,
                                     stdout=subprocess.PIPE, stderr=self.errf,
                                     env=self.env, bufsize=0)
        self.buf = b""
        self.starts += 1

    def stop(self):
        if self.proc:
            try:
                self.proc.stdin.close()
            except Exception:
                pass
            try:
                self.proc.kill()
            except Exception:
                pass
            try:
                self.proc.wait(timeout=5)
            except Exception:
                pass
            self.proc = None
        if self.errf:
            self.errf.close()
            self.errf = None

    def _stderr(self):
        try:
            self.errf.seek(0)
            return self.errf.read().decode("utf-8", "replace")
        except Exception:
            return ""

    def _readline(self, deadline):
        fd = self.proc.stdout.fileno()
        while b"\n" not in self.buf:
            left = deadline - time.time()
            if left <= 0:
                return "timeout"
            r, _, _ = select.select([fd], [], [], min(left, 5.0))
            if not r:
                continue
            chunk = os.read(fd, 1 << 16)
            if not chunk:
                return None
            self.buf += chunk
        line, _, self.buf = self.buf.partition(b"\n")
        return line.decode("ascii", "replace")

    def run(self, lines, timeout=120.0):
        """Send command lines; return (responses, end).  end is None when all
        were answered, a Death when the worker died on its own with line index
        of the in-flight command, or a Timeout when the watchdog fired
        (inconclusive)."""
        if not self.proc or self.proc.poll() is not None:
            self.start()
        res = []
        i = 0
        # Pipeline in windows to avoid pipe dead-lock with large cases.
        WINDOW = 64
        n = len(lines)
        sent = 0
        while i < n:
            while sent < n and sent - i < WINDOW:
                try:
                    self.proc.stdin.write((lines[sent] + "\n").encode("ascii"))
                except BrokenPipeError:
                    break
                sent += 1
            deadline = time.time() + timeout
            r = self._readline(deadline)
            if r == "timeout":
                self.stop()
                return res, Timeout(i)
            if r is None:
                try:
                    rc = self.proc.wait(timeout=10)
                except Exception:
                    rc = None
                err = self._stderr()
                self.stop()
                return res, Death(rc, err, i)
            res.append(parse_response(r))
            i += 1
        return res, None

    def stderr_text(self):
        return self._stderr()


# per-process worker registry (each pool child owns its own workers)
_workers = {}


def worker(path, env=None, key=None):
    k = key or path
    w = _workers.get(k)
    if w is None:
        w = Worker(path, env)
        _workers[k] = w
    return w


def stop_all():
    for w in _workers.values():
        w.stop()
    _workers.clear()


def _child_init():
    _workers.clear()
    signal.signal(signal.SIGINT, signal.SIG_IGN)


def pmap(func, items, nproc=None, chunksize=1):
    """Ordered-agnostic parallel map in forked children.  func must be a
    module-level function; items picklable."""
    nproc = nproc or NPROC
    items = list(items)
    if not items:
        return []
    if nproc <= 1 or len(items) == 1:
        out = [func(x) for x in items]
        stop_all()
        return out
    ctx = multiprocessing.get_context("fork")
    with ctx.Pool(min(nproc, len(items)), initializer=_child_init) as p:
        out = list(p.imap_unordered(func, items, chunksize))
    return out


def chunks(seq, n):
    seq = list(seq)
    return [seq[i:i + n] for i in range(0, len(seq), n)]


def hx(b):
    """bytes/None -> protocol token."""
    if b is None:
        return "-"
    if len(b) == 0:
        return "."
    return b.hex()


def unhx(t):
    if t == "-" or t is None:
        return None
    if t == ".":
        return b""
    return bytes.fromhex(t)
