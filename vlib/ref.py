"""Reference models of the hashing methods (DESIGN §3.4), written from the
public descriptions on top of hashlib / hmac, a pure-Python MD4, a bit-level
DES, nettle's bcrypt (ctypes) and libgcrypt's Streebog (ctypes).  They never
touch /repo.  selftest() validates them against published vectors and against
each other; failures are harness errors, never violations."""
import ctypes
import ctypes.util
import hashlib
import hmac
import os
import struct

from . import gen

A64 = gen.A64


def to64(v, n):
    out = bytearray()
    for _ in range(n):
        out.append(A64[v & 63])
        v >>= 6
    return bytes(out)


# ------------------------------------------------------------------ md5crypt

def md5crypt(pw, salt):
    salt = salt[:8]
    alt = hashlib.md5(pw + salt + pw).digest()
    ctx = hashlib.md5(pw + b"$1$" + salt)
    n = len(pw)
    while n > 0:
        ctx.update(alt[:min(16, n)])
        n -= 16
    i = len(pw)
    while i:
        ctx.update(b"\0" if i & 1 else pw[:1])
        i >>= 1
    f = ctx.digest()
    for i in range(1000):
        c = hashlib.md5()
        c.update(pw if i & 1 else f)
        if i % 3:
            c.update(salt)
        if i % 7:
            c.update(pw)
        c.update(f if i & 1 else pw)
        f = c.digest()
    out = b""
    for a, b, c in ((0, 6, 12), (1, 7, 13), (2, 8, 14), (3, 9, 15), (4, 10, 5)):
        out += to64((f[a] << 16) | (f[b] << 8) | f[c], 4)
    out += to64(f[11], 2)
    return b"$1$" + salt + b"$" + out


# ------------------------------------------------------------------ SHA-crypt

_SHA512_ORDER = [(0, 21, 42), (22, 43, 1), (44, 2, 23), (3, 24, 45), (25, 46, 4), (47, 5, 26), (6, 27, 48),
                 (28, 49, 7), (50, 8, 29), (9, 30, 51), (31, 52, 10), (53, 11, 32), (12, 33, 54), (34, 55, 13),
                 (56, 14, 35), (15, 36, 57), (37, 58, 16), (59, 17, 38), (18, 39, 60), (40, 61, 19), (62, 20, 41)]
_SHA256_ORDER = [(0, 10, 20), (21, 1, 11), (12, 22, 2), (3, 13, 23), (24, 4, 14), (15, 25, 5), (6, 16, 26),
                 (27, 7, 17), (18, 28, 8), (9, 19, 29)]


def shacrypt(bits, pw, salt, rounds=None):
    """Drepper's SHA-crypt; rounds=None means the default 5000 without a
    rounds= field."""
    H = hashlib.sha512 if bits == 512 else hashlib.sha256
    dl = 64 if bits == 512 else 32
    salt = salt[:16]
    r = 5000 if rounds is None else rounds
    b = H(pw + salt + pw).digest()
    a = H(pw + salt)
    n = len(pw)
    while n > dl:
        a.update(b)
        n -= dl
    a.update(b[:n])
    n = len(pw)
    while n:
        a.update(b if n & 1 else pw)
        n >>= 1
    da = a.digest()
    dp = H(pw * len(pw)).digest()
    p = (dp * (len(pw) // dl + 1))[:len(pw)]
    ds = H(salt * (16 + da[0])).digest()
    s = (ds * (len(salt) // dl + 1))[:len(salt)]
    c = da
    for i in range(r):
        h = H()
        h.update(p if i & 1 else c)
        if i % 3:
            h.update(s)
        if i % 7:
            h.update(p)
        h.update(c if i & 1 else p)
        c = h.digest()
    out = b""
    if bits == 512:
        for x, y, z in _SHA512_ORDER:
            out += to64((c[x] << 16) | (c[y] << 8) | c[z], 4)
        out += to64(c[63], 2)
        tag = b"$6$"
    else:
        for x, y, z in _SHA256_ORDER:
            out += to64((c[x] << 16) | (c[y] << 8) | c[z], 4)
        out += to64((c[31] << 8) | c[30], 3)
        tag = b"$5$"
    rs = b"" if rounds is None else b"rounds=%d$" % rounds
    return tag + rs + salt + b"$" + out


# ------------------------------------------------------------------ SunMD5

with open(os.path.join(os.path.dirname(os.path.abspath(__file__)), "hamlet.txt"), "rb") as _f:
    HAMLET = _f.read() + b"\0"      # the trailing NUL is part of the input


def _bit(d, n):
    n %= 128
    return (d[n // 8] >> (n % 8)) & 1


def _coin(d, rnd):
    x = y = 0
    for i in range(8):
        a, b = d[i % 16], d[(i + 3) % 16]
        v = d[(a >> (b % 5)) % 16]
        if b & (1 << (a % 8)):
            v //= 2
        x |= _bit(d, v) << i
        a, b = d[(i + 8) % 16], d[(i + 11) % 16]
        v = d[(a >> (b % 5)) % 16]
        if b & (1 << (a % 8)):
            v //= 2
        y |= _bit(d, v) << i
    if _bit(d, rnd):
        x //= 2
    if _bit(d, rnd + 64):
        y //= 2
    return _bit(d, x) ^ _bit(d, y)


def sunmd5(pw, setting, rounds_total=None):
    """setting: $md5[,$][rounds=N$]salt[$[$]][hash].  rounds_total overrides
    4096 + N (used to demonstrate the 32-bit wrap)."""
    assert setting[:4] == b"$md5" and setting[4:5] in (b"$", b",")
    p = 5
    n = 0
    if setting[p:p + 7] == b"rounds=":
        q = p + 7
        e = q
        while e < len(setting) and 0x30 <= setting[e] <= 0x39:
            e += 1
        n = int(setting[q:e])
        assert setting[e:e + 1] == b"$"
        p = e + 1
    while p < len(setting) and setting[p] in gen.A64SET:
        p += 1
    if setting[p:p + 1] == b"$" and (setting[p + 1:p + 2] in (b"$", b"")):
        p += 1
    prefix = setting[:p]
    total = 4096 + n if rounds_total is None else rounds_total
    d = hashlib.md5(pw + prefix).digest()
    for i in range(total):
        h = hashlib.md5(d)
        if _coin(d, i):
            h.update(HAMLET)
        h.update(b"%d" % i)
        d = h.digest()
    out = b""
    for a, b, c in ((12, 6, 0), (13, 7, 1), (14, 8, 2), (15, 9, 3), (5, 10, 4)):
        out += to64(d[a] | (d[b] << 8) | (d[c] << 16), 4)
    out += to64(d[11], 2)
    return prefix + b"$" + out


# ------------------------------------------------------------------ sha1crypt

def sha1crypt(pw, iterations, salt):
    msg = salt + b"$sha1$" + (b"%d" % iterations)
    h = hmac.new(pw, msg, hashlib.sha1).digest()
    for _ in range(1, iterations):
        h = hmac.new(pw, h, hashlib.sha1).digest()
    out = b""
    for i in range(0, 18, 3):
        out += to64((h[i] << 16) | (h[i + 1] << 8) | h[i + 2], 4)
    out += to64((h[18] << 16) | (h[19] << 8) | h[0], 4)
    return b"$sha1$%d$" % iterations + salt + b"$" + out


# ------------------------------------------------------------------ MD4 / NT

def md4(data):
    def F(x, y, z): return (x & y) | (~x & z)
    def G(x, y, z): return (x & y) | (x & z) | (y & z)
    def Hh(x, y, z): return x ^ y ^ z
    def rol(v, s): return ((v << s) | (v >> (32 - s))) & 0xFFFFFFFF
    msg = data + b"\x80"
    msg += b"\0" * ((56 - len(msg) % 64) % 64)
    msg += struct.pack("<Q", (len(data) * 8) & 0xFFFFFFFFFFFFFFFF)
    a, b, c, d = 0x67452301, 0xEFCDAB89, 0x98BADCFE, 0x10325476
    for off in range(0, len(msg), 64):
        X = struct.unpack("<16I", msg[off:off + 64])
        aa, bb, cc, dd = a, b, c, d
        for i in range(16):
            s = (3, 7, 11, 19)[i % 4]
            t = (a + F(b, c, d) + X[i]) & 0xFFFFFFFF
            a, b, c, d = d, rol(t, s), b, c
        for i in range(16):
            k = (i % 4) * 4 + i // 4
            s = (3, 5, 9, 13)[i % 4]
            t = (a + G(b, c, d) + X[k] + 0x5A827999) & 0xFFFFFFFF
            a, b, c, d = d, rol(t, s), b, c
        order = (0, 8, 4, 12, 2, 10, 6, 14, 1, 9, 5, 13, 3, 11, 7, 15)
        for i in range(16):
            s = (3, 9, 11, 15)[i % 4]
            t = (a + Hh(b, c, d) + X[order[i]] + 0x6ED9EBA1) & 0xFFFFFFFF
            a, b, c, d = d, rol(t, s), b, c
        a = (a + aa) & 0xFFFFFFFF
        b = (b + bb) & 0xFFFFFFFF
        c = (c + cc) & 0xFFFFFFFF
        d = (d + dd) & 0xFFFFFFFF
    return struct.pack("<4I", a, b, c, d)


def nthash(pw):
    u = b"".join(bytes([c, 0]) for c in pw)
    return b"$3$$" + md4(u).hex().encode()


# ------------------------------------------------------------------ DES

_IP = [58, 50, 42, 34, 26, 18, 10, 2, 60, 52, 44, 36, 28, 20, 12, 4, 62, 54, 46, 38, 30, 22, 14, 6,
       64, 56, 48, 40, 32, 24, 16, 8, 57, 49, 41, 33, 25, 17, 9, 1, 59, 51, 43, 35, 27, 19, 11, 3,
       61, 53, 45, 37, 29, 21, 13, 5, 63, 55, 47, 39, 31, 23, 15, 7]
_FP = [40, 8, 48, 16, 56, 24, 64, 32, 39, 7, 47, 15, 55, 23, 63, 31, 38, 6, 46, 14, 54, 22, 62, 30,
       37, 5, 45, 13, 53, 21, 61, 29, 36, 4, 44, 12, 52, 20, 60, 28, 35, 3, 43, 11, 51, 19, 59, 27,
       34, 2, 42, 10, 50, 18, 58, 26, 33, 1, 41, 9, 49, 17, 57, 25]
_E = [32, 1, 2, 3, 4, 5, 4, 5, 6, 7, 8, 9, 8, 9, 10, 11, 12, 13, 12, 13, 14, 15, 16, 17,
      16, 17, 18, 19, 20, 21, 20, 21, 22, 23, 24, 25, 24, 25, 26, 27, 28, 29, 28, 29, 30, 31, 32, 1]
_P = [16, 7, 20, 21, 29, 12, 28, 17, 1, 15, 23, 26, 5, 18, 31, 10, 2, 8, 24, 14, 32, 27, 3, 9,
      19, 13, 30, 6, 22, 11, 4, 25]
_PC1 = [57, 49, 41, 33, 25, 17, 9, 1, 58, 50, 42, 34, 26, 18, 10, 2, 59, 51, 43, 35, 27, 19, 11, 3,
        60, 52, 44, 36, 63, 55, 47, 39, 31, 23, 15, 7, 62, 54, 46, 38, 30, 22, 14, 6, 61, 53, 45, 37,
        29, 21, 13, 5, 28, 20, 12, 4]
_PC2 = [14, 17, 11, 24, 1, 5, 3, 28, 15, 6, 21, 10, 23, 19, 12, 4, 26, 8, 16, 7, 27, 20, 13, 2,
        41, 52, 31, 37, 47, 55, 30, 40, 51, 45, 33, 48, 44, 49, 39, 56, 34, 53, 46, 42, 50, 36, 29, 32]
_SHIFTS = [1, 1, 2, 2, 2, 2, 2, 2, 1, 2, 2, 2, 2, 2, 2, 1]
_S = [
    [14, 4, 13, 1, 2, 15, 11, 8, 3, 10, 6, 12, 5, 9, 0, 7, 0, 15, 7, 4, 14, 2, 13, 1, 10, 6, 12, 11, 9, 5, 3, 8,
     4, 1, 14, 8, 13, 6, 2, 11, 15, 12, 9, 7, 3, 10, 5, 0, 15, 12, 8, 2, 4, 9, 1, 7, 5, 11, 3, 14, 10, 0, 6, 13],
    [15, 1, 8, 14, 6, 11, 3, 4, 9, 7, 2, 13, 12, 0, 5, 10, 3, 13, 4, 7, 15, 2, 8, 14, 12, 0, 1, 10, 6, 9, 11, 5,
     0, 14, 7, 11, 10, 4, 13, 1, 5, 8, 12, 6, 9, 3, 2, 15, 13, 8, 10, 1, 3, 15, 4, 2, 11, 6, 7, 12, 0, 5, 14, 9],
    [10, 0, 9, 14, 6, 3, 15, 5, 1, 13, 12, 7, 11, 4, 2, 8, 13, 7, 0, 9, 3, 4, 6, 10, 2, 8, 5, 14, 12, 11, 15, 1,
     13, 6, 4, 9, 8, 15, 3, 0, 11, 1, 2, 12, 5, 10, 14, 7, 1, 10, 13, 0, 6, 9, 8, 7, 4, 15, 14, 3, 11, 5, 2, 12],
    [7, 13, 14, 3, 0, 6, 9, 10, 1, 2, 8, 5, 11, 12, 4, 15, 13, 8, 11, 5, 6, 15, 0, 3, 4, 7, 2, 12, 1, 10, 14, 9,
     10, 6, 9, 0, 12, 11, 7, 13, 15, 1, 3, 14, 5, 2, 8, 4, 3, 15, 0, 6, 10, 1, 13, 8, 9, 4, 5, 11, 12, 7, 2, 14],
    [2, 12, 4, 1, 7, 10, 11, 6, 8, 5, 3, 15, 13, 0, 14, 9, 14, 11, 2, 12, 4, 7, 13, 1, 5, 0, 15, 10, 3, 9, 8, 6,
     4, 2, 1, 11, 10, 13, 7, 8, 15, 9, 12, 5, 6, 3, 0, 14, 11, 8, 12, 7, 1, 14, 2, 13, 6, 15, 0, 9, 10, 4, 5, 3],
    [12, 1, 10, 15, 9, 2, 6, 8, 0, 13, 3, 4, 14, 7, 5, 11, 10, 15, 4, 2, 7, 12, 9, 5, 6, 1, 13, 14, 0, 11, 3, 8,
     9, 14, 15, 5, 2, 8, 12, 3, 7, 0, 4, 10, 1, 13, 11, 6, 4, 3, 2, 12, 9, 5, 15, 10, 11, 14, 1, 7, 6, 0, 8, 13],
    [4, 11, 2, 14, 15, 0, 8, 13, 3, 12, 9, 7, 5, 10, 6, 1, 13, 0, 11, 7, 4, 9, 1, 10, 14, 3, 5, 12, 2, 15, 8, 6,
     1, 4, 11, 13, 12, 3, 7, 14, 10, 15, 6, 8, 0, 5, 9, 2, 6, 11, 13, 8, 1, 4, 10, 7, 9, 5, 0, 15, 14, 2, 3, 12],
    [13, 2, 8, 4, 6, 15, 11, 1, 10, 9, 3, 14, 5, 0, 12, 7, 1, 15, 13, 8, 10, 3, 7, 4, 12, 5, 6, 11, 0, 14, 9, 2,
     7, 11, 4, 1, 9, 12, 14, 2, 0, 6, 10, 13, 15, 3, 5, 8, 2, 1, 14, 7, 4, 10, 8, 13, 15, 12, 9, 0, 3, 5, 6, 11],
]


def _perm(v, table, nin):
    out = 0
    for t in table:
        out = (out << 1) | ((v >> (nin - t)) & 1)
    return out


# S-box output already P-permuted, indexed by the raw 6-bit input
_SP = []
for _i in range(8):
    row = []
    for _x in range(64):
        r = ((_x >> 4) & 2) | (_x & 1)
        c = (_x >> 1) & 15
        v = _S[_i][r * 16 + c] << (28 - 4 * _i)
        row.append(_perm(v, _P, 32))
    _SP.append(row)


def des_subkeys(key64):
    cd = _perm(key64, _PC1, 64)
    c, d = cd >> 28, cd & 0xFFFFFFF
    ks = []
    for s in _SHIFTS:
        c = ((c << s) | (c >> (28 - s))) & 0xFFFFFFF
        d = ((d << s) | (d >> (28 - s))) & 0xFFFFFFF
        ks.append(_perm((c << 28) | d, _PC2, 56))
    return ks


def des_block(ks, block64, saltbits=0, count=1, decrypt=False):
    """count iterations of DES with the crypt(3) salt perturbation: salt bit i
    (0..23) swaps bits i and i+24 of the E-expansion output (counted from the
    left, 1-based positions i+1 and i+25)."""
    v = _perm(block64, _IP, 64)
    l, r = v >> 32, v & 0xFFFFFFFF
    # salt mask in the 24-bit halves of the 48-bit expansion: salt bit i <-> position i from the left
    mask = 0
    for i in range(24):
        if (saltbits >> i) & 1:
            mask |= 1 << (23 - i)
    order = range(15, -1, -1) if decrypt else range(16)
    for _ in range(count):
        for k in order:
            e = _perm(r, _E, 32)
            hi, lo = e >> 24, e & 0xFFFFFF
            t = (hi ^ lo) & mask
            hi ^= t
            lo ^= t
            e = ((hi << 24) | lo) ^ ks[k]
            f = 0
            for i in range(8):
                f |= _SP[i][(e >> (42 - 6 * i)) & 63]
            l, r = r, l ^ f
        l, r = r, l
    return _perm((l << 32) | r, _FP, 64)


def _a64(c):
    return A64.find(bytes([c]))


def _des_out(v):
    """64 bits -> 11 characters, 6 bits each from the left, last padded"""
    out = bytearray()
    v <<= 2
    for i in range(11):
        out.append(A64[(v >> (60 - 6 * i)) & 63])
    return bytes(out)


def _des_key(chunk):
    k = 0
    for i in range(8):
        c = chunk[i] if i < len(chunk) else 0
        k = (k << 8) | ((c << 1) & 0xFF)
    return k


def descrypt(pw, salt2):
    salt = _a64(salt2[0]) | (_a64(salt2[1]) << 6)
    ks = des_subkeys(_des_key(pw[:8]))
    return salt2[:2] + _des_out(des_block(ks, 0, salt, 25))


def bigcrypt(pw, salt2):
    salt = _a64(salt2[0]) | (_a64(salt2[1]) << 6)
    out = salt2[:2]
    pw = pw[:128]
    segs = [pw[i:i + 8] for i in range(0, max(len(pw), 1), 8)] or [b""]
    for seg in segs:
        ks = des_subkeys(_des_key(seg))
        blk = _des_out(des_block(ks, 0, salt, 25))
        out += blk
        salt = _a64(blk[0]) | (_a64(blk[1]) << 6)
    return out


def bsdicrypt(pw, setting9):
    count = sum(_a64(setting9[1 + i]) << (6 * i) for i in range(4))
    salt = sum(_a64(setting9[5 + i]) << (6 * i) for i in range(4))
    key = _des_key(pw[:8])
    rest = pw[8:]
    while rest or False:
        ks = des_subkeys(key)
        key = des_block(ks, key, 0, 1) ^ _des_key(rest[:8])
        rest = rest[8:]
    ks = des_subkeys(key)
    return setting9[:9] + _des_out(des_block(ks, 0, salt, count if count else 1))


# ------------------------------------------------------------------ bcrypt

_nettle = None


def _load_nettle():
    global _nettle
    if _nettle is None:
        for n in ("libnettle.so.8", ctypes.util.find_library("nettle")):
            try:
                _nettle = ctypes.CDLL(n)
                break
            except (OSError, TypeError):
                continue
    return _nettle


def bcrypt_nettle(pw, setting):
    """nettle's implementation of all $2[abxy]$ variants; setting must carry
    at least tag, cost and 22 salt characters."""
    lib = _load_nettle()
    f = lib.nettle_blowfish_bcrypt_hash
    f.restype = ctypes.c_int
    f.argtypes = [ctypes.c_char_p, ctypes.c_size_t, ctypes.c_char_p, ctypes.c_size_t, ctypes.c_char_p,
                  ctypes.c_int, ctypes.c_char_p]
    dst = ctypes.create_string_buffer(64)
    ok = f(dst, len(pw), pw, len(setting), setting, -1, None)
    return dst.value if ok else None


_PI_WORDS = None


def _pi_words():
    """P-array and S-boxes of Blowfish: the fractional hex digits of pi"""
    global _PI_WORDS
    if _PI_WORDS is None:
        n = 18 + 1024
        bits = 32 * n + 64
        one = 1 << bits

        def arctan_inv(x):
            t = one // x
            s = t
            x2 = x * x
            k = 1
            while t:
                t //= x2
                k += 2
                s += -(t // k) if (k // 2) % 2 else t // k
            return s
        pi = 4 * (4 * arctan_inv(5) - arctan_inv(239))
        frac = pi - 3 * one
        words = []
        for i in range(n):
            words.append((frac >> (bits - 32 * (i + 1))) & 0xFFFFFFFF)
        _PI_WORDS = words
    return _PI_WORDS


def bcrypt_pure(pw, cost, salt16):
    """Eksblowfish ($2b$/$2y$ semantics) in pure Python: slow, a second opinion
    independent of the crypt_blowfish lineage."""
    w = _pi_words()
    P = list(w[:18])
    S = [list(w[18 + 256 * i:18 + 256 * (i + 1)]) for i in range(4)]

    def enc(l, r):
        for i in range(16):
            l ^= P[i]
            f = ((S[0][l >> 24] + S[1][(l >> 16) & 255]) & 0xFFFFFFFF) ^ S[2][(l >> 8) & 255]
            f = (f + S[3][l & 255]) & 0xFFFFFFFF
            r ^= f
            l, r = r, l
        l, r = r, l
        return l ^ P[17], r ^ P[16]

    def words_of(data, n):
        out = []
        j = 0
        for _ in range(n):
            v = 0
            for _ in range(4):
                v = ((v << 8) | data[j % len(data)]) & 0xFFFFFFFF
                j += 1
            out.append(v)
        return out

    def expand(key, salt):
        kw = words_of(key, 18)
        for i in range(18):
            P[i] ^= kw[i]
        sw = words_of(salt, 4) if salt else [0, 0, 0, 0]
        l = r = 0
        j = 0
        for i in range(0, 18, 2):
            l ^= sw[j % 4]
            r ^= sw[(j + 1) % 4]
            j += 2
            l, r = enc(l, r)
            P[i], P[i + 1] = l, r
        for b in range(4):
            for i in range(0, 256, 2):
                l ^= sw[j % 4]
                r ^= sw[(j + 1) % 4]
                j += 2
                l, r = enc(l, r)
                S[b][i], S[b][i + 1] = l, r
    key = (pw + b"\0")[:72]
    expand(key, salt16)
    for _ in range(1 << cost):
        expand(key, None)
        expand(salt16, None)
    ct = list(struct.unpack(">6I", b"OrpheanBeholderScryDoubt"))
    for _ in range(64):
        for i in range(0, 6, 2):
            ct[i], ct[i + 1] = enc(ct[i], ct[i + 1])
    raw = struct.pack(">6I", *ct)[:23]
    return gen.bf_encode(salt16)[:22], gen.bf_encode(raw)[:31]


def bf_decode(s, n):
    out = bytearray()
    vals = [gen.BF64.find(bytes([c])) for c in s]
    if any(v < 0 for v in vals):
        return None
    i = 0
    while len(out) < n and i + 1 < len(vals):
        c1, c2 = vals[i], vals[i + 1]
        out.append(((c1 << 2) | (c2 >> 4)) & 255)
        if len(out) >= n or i + 2 >= len(vals):
            break
        c3 = vals[i + 2]
        out.append(((c2 << 4) | (c3 >> 2)) & 255)
        if len(out) >= n or i + 3 >= len(vals):
            break
        c4 = vals[i + 3]
        out.append(((c3 << 6) | c4) & 255)
        i += 4
    return bytes(out)


# ------------------------------------------------------------------ scrypt family

def scrypt7(pw, setting):
    """$7$ N r p salt[$...]: hashlib.scrypt (OpenSSL)"""
    nl = A64.find(setting[3:4])
    r = sum(A64.find(setting[4 + i:5 + i]) << (6 * i) for i in range(5))
    p = sum(A64.find(setting[9 + i:10 + i]) << (6 * i) for i in range(5))
    rest = setting[14:]
    i = rest.rfind(b"$")
    salt = rest if i < 0 else rest[:i]
    dk = hashlib.scrypt(pw, salt=salt, n=1 << nl, r=r, p=p, dklen=32, maxmem=1 << 30)
    return setting[:14] + salt + b"$" + gen.yes_encode64(dk)


def yescrypt_classic(pw, setting):
    """$y$ with flavour '.' (flags 0) is classic scrypt over the decoded salt"""
    from . import decode
    tag = b"$gy$" if setting.startswith(b"$gy$") else b"$y$"
    body = setting
    j = body.find(b"$", len(tag))
    params = body[:j + 1]
    rest = body[j + 1:]
    i = rest.rfind(b"$")
    saltstr = rest if i < 0 else rest[:i]
    d = decode.decode("yescrypt" if tag == b"$y$" else "gost_yescrypt", params + saltstr)
    if d is None:
        return None
    fl, nl, r, p, t = d["cost"]
    if fl != 0 or t != 0:
        return None
    salt = gen.yes_decode64(saltstr)
    if salt is None:
        return None
    dk = hashlib.scrypt(pw, salt=salt, n=1 << nl, r=r, p=p, dklen=32, maxmem=1 << 30)
    return params + saltstr + b"$" + gen.yes_encode64(dk)


# ------------------------------------------------------------------ gost outer layer

_gcrypt = None
GCRY_MD_STRIBOG256 = 309


def _load_gcrypt():
    global _gcrypt
    if _gcrypt is None:
        lib = ctypes.CDLL("libgcrypt.so.20")
        lib.gcry_check_version.restype = ctypes.c_char_p
        lib.gcry_check_version(None)
        lib.gcry_md_hash_buffer.argtypes = [ctypes.c_int, ctypes.c_char_p, ctypes.c_char_p, ctypes.c_size_t]
        _gcrypt = lib
    return _gcrypt


def streebog256(data):
    lib = _load_gcrypt()
    out = ctypes.create_string_buffer(32)
    lib.gcry_md_hash_buffer(GCRY_MD_STRIBOG256, out, data, len(data))
    return out.raw


def hmac_streebog256(key, msg):
    k = key if len(key) <= 64 else streebog256(key)
    k = k + b"\0" * (64 - len(k))
    inner = streebog256(bytes(x ^ 0x36 for x in k) + msg)
    return streebog256(bytes(x ^ 0x5c for x in k) + inner)


def gost_outer(pw, gy_setting, y_hash):
    """$gy$ hash from the $y$ hash of the derived setting:
    HMAC(HMAC(Streebog(K), setting-prefix), yescrypt(K, S))"""
    i = y_hash.rfind(b"$")
    yraw = gen.yes_decode64(y_hash[i + 1:])
    L = i + 1                         # length of "$y$params$salt$"
    hk = streebog256(pw)
    interm = hmac_streebog256(hk, gy_setting[:L])
    fin = hmac_streebog256(interm, yraw)
    return b"$gy$" + y_hash[3:i + 1] + gen.yes_encode64(fin)


# ------------------------------------------------------------------ dispatcher

def _salt_field(rest):
    i = rest.find(b"$")
    return rest if i < 0 else rest[:i]


def model_hash(method, pw, setting, budget=None):
    """Reference result for settings of the *documented* format; None when the
    setting is outside the model's domain (then only the released binary is
    consulted)."""
    try:
        if method == "md5crypt":
            if not setting.startswith(b"$1$"):
                return None
            return md5crypt(pw, _salt_field(setting[3:]))
        if method in ("sha256crypt", "sha512crypt"):
            tag = b"$5$" if method == "sha256crypt" else b"$6$"
            rest = setting[3:]
            rounds = None
            if rest.startswith(b"rounds="):
                j = rest.find(b"$")
                num = rest[7:j]
                if j < 0 or not num.isdigit() or num[:1] == b"0":
                    return None
                rounds = int(num)
                if not 1000 <= rounds <= 999999999:
                    return None
                rest = rest[j + 1:]
            return shacrypt(256 if method == "sha256crypt" else 512, pw, _salt_field(rest), rounds)
        if method == "sha1crypt":
            if not setting.startswith(b"$sha1$"):
                return None
            rest = setting[6:]
            j = rest.find(b"$")
            num = rest[:j]
            if j < 0 or not num.isdigit() or (len(num) > 1 and num[:1] == b"0"):
                return None
            salt = _salt_field(rest[j + 1:])
            if not 1 <= len(salt) <= 64 or int(num) < 1:
                return None
            return sha1crypt(pw, int(num), salt)
        if method == "sunmd5":
            return sunmd5(pw, setting)
        if method == "nt":
            return nthash(pw)
        if method == "descrypt":
            return descrypt(bytes(c & 0x7F for c in pw), setting[:2])
        if method == "bigcrypt":
            return bigcrypt(bytes(c & 0x7F for c in pw), setting[:2])
        if method == "bsdicrypt":
            return bsdicrypt(bytes(c & 0x7F for c in pw), setting[:9])
        if method in ("bcrypt", "bcrypt_a", "bcrypt_x", "bcrypt_y"):
            return bcrypt_nettle(pw, setting[:29])
        if method == "scrypt":
            return scrypt7(pw, setting)
        if method in ("yescrypt",):
            return yescrypt_classic(pw, setting)
    except (ValueError, AssertionError, IndexError, MemoryError):
        return None
    return None


def selftest():
    """-> list of failures (empty when everything agrees)"""
    bad = []
    if md4(b"abc").hex() != "a448017aaf21d8525fc10ae87aa6729d":
        bad.append("md4 RFC 1320")
    if md4(b"a" * 100) != md4(b"a" * 100) or md4(b"12345678901234567890123456789012345678901234567890123456789012345678901234567890").hex() != "e33b4ddc9c38f2199c3e7b164fcc0536":
        bad.append("md4 RFC 1320 (80 digits)")
    if shacrypt(512, b"Hello world!", b"saltstring") != \
            b"$6$saltstring$svn8UoSVapNtMuq1ukKS4tPQd8iKwSMHWjl/O817G3uBnIFNjnQJuesI68u4OTLiBFdcbYEdFCoEOfaS35inz1":
        bad.append("sha512crypt SHA-crypt.txt vector 1")
    if shacrypt(256, b"Hello world!", b"saltstring") != b"$5$saltstring$5B8vYYiY.CVt1RlTTf8KbXBH3hsxY/GNooZaBBGWEc5":
        bad.append("sha256crypt SHA-crypt.txt vector 1")
    if shacrypt(512, b"Hello world!", b"saltstringsaltstring", 10000) != \
            b"$6$rounds=10000$saltstringsaltst$OW1/O6BYHV6BcXZu8QVeXbDWra3Oeqh0sbHbbMCVNSnCM/UrjmM0Dp8vOuZeHBy/YTBmSK6H9qs/y3RnOaw5v.":
        bad.append("sha512crypt SHA-crypt.txt vector 2")
    # DES against nettle on random key/block pairs
    try:
        lib = _load_nettle()

        class Ctx(ctypes.Structure):
            _fields_ = [("key", ctypes.c_uint32 * 32)]
        import random
        rng = random.Random(12345)
        for _ in range(300):
            k = rng.getrandbits(64)
            b = rng.getrandbits(64)
            ctx = Ctx()
            kb = k.to_bytes(8, "big")
            lib.nettle_des_set_key(ctypes.byref(ctx), kb)
            dst = ctypes.create_string_buffer(8)
            lib.nettle_des_encrypt(ctypes.byref(ctx), 8, dst, b.to_bytes(8, "big"))
            mine = des_block(des_subkeys(k), b)
            if mine.to_bytes(8, "big") != dst.raw:
                bad.append("DES vs nettle")
                break
            if des_block(des_subkeys(k), mine, decrypt=True) != b:
                bad.append("DES decrypt")
                break
    except Exception as e:           # nettle missing: the sys cross-check below still applies
        bad.append("nettle unavailable: %s" % e)
    # bcrypt: pure Python against nettle
    try:
        salt = bytes(range(16))
        s22, d31 = bcrypt_pure(b"correct horse", 4, salt)
        if bcrypt_nettle(b"correct horse", b"$2b$04$" + s22) != b"$2b$04$" + s22 + d31:
            bad.append("bcrypt pure vs nettle")
    except Exception as e:
        bad.append("bcrypt: %s" % e)
    if hashlib.scrypt(b"", salt=b"", n=16, r=1, p=1, dklen=8).hex() != "77d6576238657b20":
        bad.append("scrypt RFC 7914 vector 1")
    try:
        # GOST R 34.11-2012 256-bit, message M1 of the standard (RFC 6986 example 1, bytes reversed there)
        m1 = bytes.fromhex("323130393837363534333231303938373635343332313039383736353433323130393837363534333231303938373635343332313039383736353433323130")[::-1]
        if streebog256(m1)[::-1].hex() != "00557be5e584fd52a449b16b0251d05d27f94ab76cbaa6da890b59d8ef1e159d"[::1] and \
           streebog256(m1).hex() != "9d151eefd8590b89daa6ba6cb74af9275dd051026bb149a452fd84e5e57b5500":
            bad.append("streebog256 RFC 6986")
    except Exception as e:
        bad.append("gcrypt: %s" % e)
    return bad
