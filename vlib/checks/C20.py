"""C20 - binary interface stays compatible with released libcrypt.so.1
(DESIGN §4 C20).

(1) layout probe compiled against the tree's generated <crypt.h> and against the
released header; (2) every (symbol, version) the released library defines must
be defined by the freshly built one; (3) an old client - built against the
released header and library, binding the compat-only symbol versions - is run
unchanged against the fresh library and its transcript compared."""
import os
import re
import subprocess

from .. import build, common, facts, gen, pool, rt
from . import C02

PID = "C20"
SYS_LIB = "/lib/x86_64-linux-gnu/libcrypt.so.1"
EXPECT = {"sizeof.crypt_data": 32768, "CRYPT_OUTPUT_SIZE": 384, "CRYPT_MAX_PASSPHRASE_SIZE": 512,
          "CRYPT_GENSALT_OUTPUT_SIZE": 192, "CRYPT_DATA_RESERVED_SIZE": 767, "CRYPT_DATA_INTERNAL_SIZE": 30720,
          "CRYPT_SALT_OK": 0, "CRYPT_SALT_INVALID": 1, "CRYPT_SALT_METHOD_DISABLED": 2,
          "CRYPT_SALT_METHOD_LEGACY": 3, "CRYPT_SALT_TOO_CHEAP": 4,
          "offset.output": 0, "offset.setting": 384, "offset.input": 768, "offset.reserved": 1280,
          "offset.initialized": 2047, "offset.internal": 2048}


def layout(tree, incdir):
    d = tree.scratch("layout")
    exe = os.path.join(d, "vlayout")
    inc = ("-I" + incdir) if incdir else ""
    p = subprocess.run("gcc -std=gnu11 %s %s -o %s" % (inc, os.path.join(build.HARNESS, "vlayout.c"), exe),
                       shell=True, stdout=subprocess.PIPE, stderr=subprocess.STDOUT, text=True)
    if p.returncode != 0:
        return None, p.stdout
    out = subprocess.run([exe], stdout=subprocess.PIPE, text=True).stdout
    import shutil
    shutil.rmtree(d, ignore_errors=True)
    return dict((ln.split()[0], int(ln.split()[1])) for ln in out.splitlines()), ""


def dynsyms(path):
    out = subprocess.run(["readelf", "--dyn-syms", "-W", path], stdout=subprocess.PIPE, text=True).stdout
    defs = {}
    for ln in out.splitlines():
        t = ln.split()
        if len(t) >= 8 and t[3] in ("FUNC", "OBJECT") and t[6] != "UND":
            m = re.match(r"^([A-Za-z0-9_]+)(@@?)([A-Za-z0-9_.]+)$", t[7])
            if m:
                defs[(m.group(1), m.group(3))] = m.group(2)
    return defs


# --enable-obsolete-api=<flavour>: the compat versions each distribution's old binaries bound (libcrypt.map.in tags,
# versions below the x86-64 floor GLIBC_2.2.5 raised to it).  Written down from the released ABI, not derived from
# the tree.
ABI_COMMON = [("crypt", "@@", "XCRYPT_2.0"), ("crypt_r", "@@", "XCRYPT_2.0"), ("crypt_rn", "@@", "XCRYPT_2.0"),
              ("crypt_ra", "@@", "XCRYPT_2.0"), ("crypt_gensalt", "@@", "XCRYPT_2.0"),
              ("crypt_gensalt_rn", "@@", "XCRYPT_2.0"), ("crypt_gensalt_ra", "@@", "XCRYPT_2.0"),
              ("crypt_checksalt", "@@", "XCRYPT_4.3"), ("crypt_preferred_method", "@@", "XCRYPT_4.4"),
              ("crypt", "@", "GLIBC_2.2.5"), ("crypt_r", "@", "GLIBC_2.2.5"), ("encrypt", "@", "GLIBC_2.2.5"),
              ("encrypt_r", "@", "GLIBC_2.2.5"), ("setkey", "@", "GLIBC_2.2.5"), ("setkey_r", "@", "GLIBC_2.2.5"),
              ("fcrypt", "@", "GLIBC_2.2.5"), ("crypt_gensalt_r", "@", "XCRYPT_2.0"), ("xcrypt", "@", "XCRYPT_2.0"),
              ("xcrypt_r", "@", "XCRYPT_2.0"), ("xcrypt_gensalt", "@", "XCRYPT_2.0"), ("xcrypt_gensalt_r", "@", "XCRYPT_2.0")]
ABI_OW = [(f, "@", "GLIBC_2.2.5") for f in ("crypt_rn", "crypt_ra", "crypt_gensalt", "crypt_gensalt_rn", "crypt_gensalt_ra")]
ABI_SUSE = [(f, "@", "OW_CRYPT_1.0") for f in ("crypt_gensalt", "crypt_gensalt_rn", "crypt_gensalt_ra")]
ABI_FLAVOURS = {"glibc": ABI_COMMON, "owl": ABI_COMMON + ABI_OW, "alt": ABI_COMMON + ABI_OW,
                "suse": ABI_COMMON + ABI_OW + ABI_SUSE}


# configure's SYMVER_FLOOR for other hosts (build-aux/scripts/compute-symver-floor over lib/libcrypt.minver): the oldest
# glibc symbol version binaries of that platform can have bound - glibc's libcrypt ABI baselines, written down here.
FLOORS = [("linux-gnu", "x86_64", "GLIBC_2.2.5"), ("linux-gnu", "i686", "GLIBC_2.0"), ("linux-gnu", "i386", "GLIBC_2.0"),
          ("linux-gnu", "aarch64", "GLIBC_2.17"), ("linux-gnu", "powerpc64le", "GLIBC_2.17"),
          ("linux-gnu", "powerpc64", "GLIBC_2.3"), ("linux-gnu", "powerpc", "GLIBC_2.0"), ("linux-gnu", "s390x", "GLIBC_2.2"),
          ("linux-gnu", "s390", "GLIBC_2.0"), ("linux-gnu", "riscv64", "GLIBC_2.27"), ("linux-gnu", "riscv32", "GLIBC_2.33"),
          ("linux-gnueabihf", "armv7l", "GLIBC_2.4"), ("linux-gnueabi", "arm", "GLIBC_2.4"), ("linux-gnu", "sparc64", "GLIBC_2.0"),
          ("linux-gnu", "sparc", "GLIBC_2.0"), ("linux-gnu", "alpha", "GLIBC_2.0"), ("linux-gnu", "mips", "GLIBC_2.0"),
          ("linux-gnuabi64", "mips64el", "GLIBC_2.0"), ("linux-gnu", "ia64", "GLIBC_2.0"), ("linux-gnu", "hppa", "GLIBC_2.0"),
          ("linux-gnu", "sh4", "GLIBC_2.0"), ("linux-gnu", "m68k", "GLIBC_2.0"), ("linux-gnu", "microblaze", "GLIBC_2.18"),
          ("linux-gnu", "nios2", "GLIBC_2.21"), ("linux-gnu", "csky", "GLIBC_2.29"), ("linux-gnu", "arc", "GLIBC_2.32"),
          ("linux-gnu", "or1k", "GLIBC_2.35"), ("linux-gnu", "tilegx", "GLIBC_2.12"), ("linux-gnu", "loongarch64", "GLIBC_2.36"),
          ("gnu", "i686", "GLIBC_2.2.6"), ("gnu", "x86_64", "GLIBC_2.38"), ("kfreebsd-gnu", "i686", "GLIBC_2.3"),
          ("linux-musl", "x86_64", "XCRYPT_2.0"), ("freebsd13.0", "x86_64", "XCRYPT_2.0"), ("darwin21", "aarch64", "XCRYPT_2.0")]
# multilib builds on an x86-64 host: the ABI is chosen by CFLAGS (as in ./configure CFLAGS=-m32), and the three
# x86_64 rows of libcrypt.minver are told apart by a preprocessor test that must see those flags.
# (-D_LIBC_LIMITS_H_: this image has no 32-bit libc headers; gcc's own <limits.h> suffices for the test.)
FLOORS_CFLAGS = [("linux-gnu", "x86_64", "-m32 -D_LIBC_LIMITS_H_", "GLIBC_2.0"),
                 ("linux-gnu", "x86_64", "-mx32 -D_LIBC_LIMITS_H_", "GLIBC_2.16"),
                 ("linux-gnu", "x86_64", "-O2 -g", "GLIBC_2.2.5")]
GLIBC_COMPAT = ["crypt", "crypt_r", "encrypt", "encrypt_r", "setkey", "setkey_r", "fcrypt"]


def floors(acc):
    scr = os.path.join(build.REPO, "build-aux", "scripts")
    env = dict(os.environ, LC_ALL="C")
    maps = {}
    for host_os, cpu, want, cflags in [(a, b, c, None) for a, b, c in FLOORS] + [(a, b, d, c) for a, b, c, d in FLOORS_CFLAGS]:
        env2 = dict(env)
        env2.pop("CPPFLAGS", None)
        if cflags is not None:
            env2["CFLAGS"] = cflags
            cpu_label = "%s[CFLAGS=%s]" % (cpu, cflags.split()[0])
        else:
            env2.pop("CFLAGS", None)
            cpu_label = cpu
        p = subprocess.run(["perl", "-I", scr, os.path.join(scr, "compute-symver-floor"),
                            os.path.join(build.REPO, "lib", "libcrypt.minver"), host_os, cpu],
                           stdout=subprocess.PIPE, stderr=subprocess.PIPE, text=True, env=env2)
        got = p.stdout.strip().splitlines()[-1] if p.stdout.strip() else ""
        acc.count("evaluations")
        acc.count("floors_checked")
        acc.cls(("floor", cpu_label, host_os))
        if p.returncode != 0 or got != want:
            acc.violation("%s/symver-floor/%s-%s" % (PID, cpu_label, host_os),
                          "configure for %s-%s would export the glibc compatibility symbols from %r; binaries of that "
                          "platform bind %s (rc=%s %s)" % (cpu, host_os, got, want, p.returncode, p.stderr[-200:]), None)
            continue
        if want.startswith("GLIBC") and want not in maps:
            q = subprocess.run(["perl", "-I", scr, os.path.join(scr, "gen-libcrypt-map"), "SYMVER_MIN=GLIBC_2.0",
                                "SYMVER_FLOOR=" + want, "COMPAT_ABI=yes", os.path.join(build.REPO, "lib", "libcrypt.map.in")],
                               stdout=subprocess.PIPE, stderr=subprocess.PIPE, text=True, env=env)
            maps[want] = q.stdout
            m = re.search(r"(?ms)^%s\s*\{(.*?)^\}" % re.escape(want), q.stdout)
            node = m.group(1) if m else ""
            for sym in GLIBC_COMPAT:
                acc.count("evaluations")
                if not re.search(r"(?m)^\s*%s;\s*$" % sym, node):
                    acc.violation("%s/symbol-missing/floor-%s/%s" % (PID, want, sym),
                                  "version script for SYMVER_FLOOR=%s does not export %s@%s" % (want, sym, want), None)


def configure_keeps_compat(acc):
    """configure drops the whole compatibility ABI (soname libcrypt.so.2, no GLIBC_* versions) unless the traditional
    DES hash is enabled; it decides that with a shell `case` over the output of expand-selected-hashes.  Run exactly
    that pair - the script, then configure.ac's own pattern - for selections with and without descrypt."""
    from . import C19
    with open(os.path.join(build.REPO, "configure.ac")) as f:
        t = f.read()
    m = re.search(r'case "\$hashes_enabled" in\s*\n\s*([^\s)]+)\)', t)
    if not m:
        acc.inconc("configure.ac: the case over $hashes_enabled was not found")
        return
    pattern = m.group(1)
    scr = os.path.join(build.REPO, "build-aux", "scripts")
    sels = ["all", "glibc", "descrypt", "osx", "descrypt,sha512crypt", "freebsd", "solaris", "strong", "alt", "fedora",
            "bigcrypt,yescrypt", "descrypt,bcrypt,yescrypt", "sunmd5,descrypt", "nt,descrypt", "yescrypt"]
    for sel in sels:
        p = subprocess.run(["perl", "-I", scr, os.path.join(scr, "expand-selected-hashes"),
                            os.path.join(build.REPO, "lib", "hashes.conf"), sel],
                           stdout=subprocess.PIPE, stderr=subprocess.PIPE, text=True, env=dict(os.environ, LC_ALL="C"))
        out = p.stdout.strip()
        q = subprocess.run(["sh", "-c", 'case "$1" in %s) echo keep;; *) echo drop;; esac' % pattern, "sh", out],
                           stdout=subprocess.PIPE, text=True)
        names = set()
        for w in sel.split(","):
            names |= set(gen.METHODS if w == "all" else (C19.independent_group(w) or [w]))
        want = "keep" if "descrypt" in names else "drop"
        acc.count("evaluations")
        acc.count("configure_decisions")
        acc.cls(("configure-compat", sel, want))
        if p.returncode != 0 or q.stdout.strip() != want:
            acc.violation("%s/configure-drops-compat-abi/%s" % (PID, sel.replace(",", "+")),
                          "--enable-hashes=%s: expand-selected-hashes prints %r and configure.ac's pattern %s decides %r; "
                          "descrypt %s selected, so the compatibility ABI must be %s" % (
                              sel, out, pattern, q.stdout.strip(), "is" if want == "keep" else "is not",
                              "kept" if want == "keep" else "dropped"), None)


PACKAGER_FLAGS = ["default+-flto", "default+-O3"]


def build_abi(abi):
    """shared library as configure --enable-obsolete-api=<abi> builds it -> (abi, {(sym, ver): @|@@} or None, error)"""
    tree = build.Tree()
    d = tree.scratch("abi-" + re.sub(r"\W", "_", abi))
    try:
        cc, cflags, ldflags = build.FLAVOURS["so"]
        if abi.startswith("default+"):
            # a packager's flags on the default configuration: link-time optimisation moves top-level asm (the
            # .symver directives of older compilers) away from the definitions it names
            cflags += " " + abi[8:]
            ldflags += " " + abi[8:]
            gd = build.gen_headers(os.path.join(d, "gen"))
        else:
            gd = build.gen_headers(os.path.join(d, "gen"), compat_abi=abi)
        objs = build.compile_objects(os.path.join(d, "obj"), gd, cc, cflags)
        lib = os.path.join(d, "libcrypt.so.1")
        p = subprocess.run("%s -shared %s %s -Wl,--version-script=%s -Wl,-soname,libcrypt.so.1 -Wl,-z,defs -Wl,-z,text "
                           "-o %s %s" % (cc, cflags, " ".join(objs), os.path.join(gd, "libcrypt.map"), lib, ldflags),
                           shell=True, stdout=subprocess.PIPE, stderr=subprocess.STDOUT, text=True)
        if p.returncode != 0:
            return abi, None, p.stdout[-600:]
        return abi, dynsyms(lib), ""
    except build.BuildError as e:
        return abi, None, str(e)[-600:]
    finally:
        import shutil
        shutil.rmtree(d, ignore_errors=True)


def client_workload(seed, tier):
    lines = []
    n = 40 if tier == "quick" else 700
    for m in gen.METHODS:
        for i in range(n):
            rng = rt.rng_for(seed, PID, m, i)
            s, cls, sec = C02.gen_case(rng, m, tier)
            p = gen.gen_phrase(rng, rng.choice([0, 5, 8, 9, 20, 72, 200]))
            p = p.replace(b"\n", b"x")
            if gen.cost_units(s, len(p)) > 120000:
                continue
            lines.append("c %s %s" % (pool.hx(p), pool.hx(s)))
            if i % 8 == 0:
                bad = s[:3] + b":" + s[3:]
                lines.append("c %s %s" % (pool.hx(p), pool.hx(bad)))
    lines.append("c - %s" % pool.hx(b"$1$abc"))
    lines.append("c %s -" % pool.hx(b"pw"))
    lines.append("c %s %s" % (pool.hx(b"pw"), pool.hx(b"*0")))
    rng = rt.rng_for(seed, PID, "gensalt")
    for m in facts.GENSALT_METHODS + ["bcrypt_x", None]:
        pre = gen.TAG[m] if m else None
        for cnt in sorted(set([0] + facts.interesting_counts(m or "yescrypt")[:6])):
            for nr in (16, 64):
                # the released 4.4.33 has F3 for $1$/$5$/$6$ with nrbytes in {3,6,9,12}: never used here
                lines.append("g %s %d %s" % (pool.hx(pre), cnt, facts.rbytes_pattern("rnd", nr, cnt).hex()))
    # the smallest output buffer each prefix works with (old binaries have their header's size compiled in)
    for m in facts.GENSALT_METHODS + [None]:
        pre = gen.TAG[m] if m else None
        for cnt in sorted(set([0] + facts.interesting_counts(m or "yescrypt")[:2])):
            for nr in (16, 32):
                lines.append("z %s %d %s" % (pool.hx(pre), cnt, facts.rbytes_pattern("rnd", nr, cnt + 1).hex()))
    for i in range(50 if tier == "quick" else 2000):
        lines.append("d %016x %016x" % (rng.getrandbits(64), rng.getrandbits(64)))
    hs = [b"ab", b"$1$saltsalt", b"_J9..rasm", b"$6$rounds=1000$xy", b"$y$j5.$c2FsdHNhbHQ", b"*0", b"$9$unknown", b"ab:cd",
          b"$2b$04$abcdefghijklmnopqrstuu"]
    for i in range(30 if tier == "quick" else 1000):
        lines.append("h %016x %016x %s %s" % (rng.getrandbits(64), rng.getrandbits(64), pool.hx(b"phrase%d" % i),
                                            pool.hx(hs[i % len(hs)])))
    for i, sset in enumerate((b"ab", b"$1$saltsalt", b"$6$rounds=1000$xy")):
        lines.append("t %s %s" % (pool.hx(b"thread phrase %d" % i), pool.hx(sset)))
    lines.append("p")
    return lines


def run_client(args):
    exe, libdir, lines = args
    env = dict(os.environ)
    if libdir:
        env["LD_LIBRARY_PATH"] = libdir
    p = subprocess.run([exe], input="\n".join(lines) + "\n", stdout=subprocess.PIPE, stderr=subprocess.PIPE,
                       text=True, env=env, timeout=3000)
    return p.returncode, p.stdout.splitlines(), p.stderr


def run(tier):
    run_ = common.Run(PID, tier, "other")
    tree = rt.prepare([])
    acc = common.Acc()
    gd = tree.gendir()
    # (1) layout and constants
    new, e1 = layout(tree, gd)
    old, e2 = layout(tree, None)
    if new is None:
        acc.violation(PID + "/header-does-not-compile", "probe against the generated crypt.h fails: " + e1[:500], None)
        new = {}
    if old is None:
        run_.harness_error("probe against the released header fails: " + e2[:300])
        old = {}
    for k in sorted(set(new) | set(old) | set(EXPECT)):
        acc.count("evaluations")
        acc.cls(("layout", k))
        if k in EXPECT and new.get(k) != EXPECT[k]:
            acc.violation("%s/layout/%s" % (PID, k), "%s = %s in the tree's crypt.h, the released ABI has %s" % (k, new.get(k), EXPECT[k]), None)
        elif k in old and k in new and old[k] != new[k] and not k.startswith("CRYPT_GENSALT_IMPLEMENTS") :
            acc.violation("%s/layout/%s" % (PID, k), "%s = %s in the tree's crypt.h, %s in the released header" % (k, new[k], old[k]), None)
    # (2) exported (symbol, version) pairs
    sodir = tree.shared("so")
    newlib = os.path.join(sodir, "libcrypt.so.1")
    rel = dynsyms(SYS_LIB)
    cur = dynsyms(newlib)
    for (sym, ver), dflt in sorted(rel.items()):
        acc.count("evaluations")
        acc.cls(("symbol", sym, ver))
        if (sym, ver) not in cur:
            acc.violation("%s/symbol-missing/%s@%s" % (PID, sym, ver),
                          "released libcrypt.so.1 exports %s%s%s, the fresh library does not" % (sym, dflt, ver), None)
        elif cur[(sym, ver)] != dflt:
            acc.violation("%s/symbol-default-changed/%s@%s" % (PID, sym, ver),
                          "%s%s%s in the release is %s%s%s now" % (sym, dflt, ver, sym, cur[(sym, ver)], ver), None)
    # (2b) the full compat set of a default upstream build (the Debian binary lacks the Owl/SUSE versions)
    gold = {}
    with open(os.path.join(build.HARNESS, "abi-golden.txt")) as f:
        for ln in f:
            if ln.startswith("#") or not ln.strip():
                continue
            sym, dflt, ver = ln.split()
            gold[(sym, ver)] = dflt
    for (sym, ver), dflt in sorted(gold.items()):
        acc.count("evaluations")
        acc.cls(("golden", sym, ver))
        if (sym, ver) not in cur:
            acc.violation("%s/symbol-missing/%s@%s" % (PID, sym, ver),
                          "a default build of libxcrypt 4.4.x exports %s%s%s, the fresh library does not" % (sym, dflt, ver), None)
        elif cur[(sym, ver)] != dflt:
            acc.violation("%s/symbol-default-changed/%s@%s" % (PID, sym, ver),
                          "%s%s%s became %s%s%s" % (sym, dflt, ver, sym, cur[(sym, ver)], ver), None)
    # (2c) the distribution flavours of --enable-obsolete-api
    for abi, syms, err in pool.pmap(build_abi, sorted(ABI_FLAVOURS) + PACKAGER_FLAGS):
        if syms is None:
            acc.violation("%s/abi-flavour-does-not-build/%s" % (PID, abi), "--enable-obsolete-api=%s: %s" % (abi, err), None)
            continue
        if abi.startswith("default+"):
            # same (symbol, version) table as the plain build of the same tree
            for (sym, ver), dflt in sorted(cur.items()):
                acc.count("evaluations")
                acc.count("packager_flag_pairs")
                acc.cls(("packager-flags", abi, sym, ver))
                if syms.get((sym, ver)) != dflt:
                    acc.violation("%s/symbol-missing/%s/%s@%s" % (PID, abi.replace(" ", ""), sym, ver),
                                  "built with CFLAGS %s the library exports %s for %s@%s, the plain build %s%s%s" % (
                                      abi[8:], syms.get((sym, ver), "nothing"), sym, ver, sym, dflt, ver), None)
            continue
        for sym, dflt, ver in ABI_FLAVOURS[abi]:
            acc.count("evaluations")
            acc.count("flavour_pairs")
            acc.cls(("flavour", abi, sym, ver))
            if (sym, ver) not in syms:
                acc.violation("%s/symbol-missing/%s/%s@%s" % (PID, abi, sym, ver),
                              "--enable-obsolete-api=%s builds of libxcrypt 4.4.x export %s%s%s, the fresh one does not" % (
                                  abi, sym, dflt, ver), None)
            elif syms[(sym, ver)] != dflt:
                acc.violation("%s/symbol-default-changed/%s/%s@%s" % (PID, abi, sym, ver),
                              "%s%s%s became %s%s%s" % (sym, dflt, ver, sym, syms[(sym, ver)], ver), None)
    # (2d) other platforms: the symbol-version floor configure would choose
    floors(acc)
    configure_keeps_compat(acc)
    # (3) old client
    exe = build.sys_program("vabi.c", "vabi-old-client", libs="-L/lib/x86_64-linux-gnu -l:libcrypt.so.1")
    lines = client_workload(run_.seed, tier)
    parts = pool.chunks(lines, max(1, len(lines) // 16 + 1))
    run_.merge(acc)
    for a in pool.pmap(compare_part, [(exe, sodir, part) for part in parts]):
        run_.merge(a)
    a = run_.acc
    cov = {
        "explanation": "differential execution of a client built against the released <crypt.h> and libcrypt.so.1 "
                       "(binding crypt@GLIBC_2.2.5, crypt_r@GLIBC_2.2.5 with a 131232-byte object and canary tail, "
                       "fcrypt, encrypt*, setkey*, xcrypt*, crypt_gensalt_r by symbol version) against the freshly "
                       "built shared library via LD_LIBRARY_PATH; plus layout/constant probes against both headers "
                       "and the (symbol, version) table of both libraries",
        "rule": "distinct = layout keys + (symbol, version) pairs + transcript line kinds compared",
        "layout_keys_compared": len(set(new) | set(EXPECT)),
        "symbol_version_pairs_checked": len(rel),
        "golden_symbol_version_pairs_checked": len(gold),
        "obsolete_api_flavours_built": sorted(ABI_FLAVOURS),
        "packager_flag_builds": PACKAGER_FLAGS,
        "host_platform_floors_checked": int(a.n.get("floors_checked", 0)),
        "configure_compat_decisions_checked": int(a.n.get("configure_decisions", 0)),
        "flavour_symbol_version_pairs_checked": int(a.n.get("flavour_pairs", 0)),
        "symbol_version_pairs": sorted("%s%s%s" % (s, d, v) for (s, v), d in rel.items()),
        "client_transcript_lines_compared": int(a.n.get("lines_compared", 0)),
        "client_requests": len(lines),
        "samples": lines[:3],
    }
    return run_.finish(cov, assumptions=[
        "x86-64 glibc symbol versions only; binaries built against glibc < 2.28's libcrypt are emulated "
        "(symbol versions, large struct), not available",
        "input classes on which the released 4.4.33 itself has one of the repaired defects (F1-F3, F5) are not in "
        "the transcript workload"], min_conclusive=300, conclusive=int(a.n.get("lines_compared", 0)))


def compare_part(args):
    exe, sodir, part = args
    acc = common.Acc()
    rc0, out0, err0 = run_client((exe, None, part))
    rc1, out1, err1 = run_client((exe, sodir, part))
    if rc0 != 0:
        acc.inconc("old client fails against the released library itself: rc=%s %s" % (rc0, err0[-200:]))
        return acc
    if rc1 != 0:
        acc.violation(PID + "/old-client-does-not-run",
                      "client built against the released library fails with the fresh one: rc=%s %s" % (rc1, err1[-400:]),
                      {"cmd": "LD_LIBRARY_PATH=%s %s" % (sodir, exe), "input": part[:5]})
        return acc
    if len(out0) != len(out1):
        acc.violation(PID + "/transcript-length", "%d vs %d lines" % (len(out0), len(out1)), None)
    for i, (a, b) in enumerate(zip(out0, out1)):
        if a.startswith("VIOL ") or b.startswith("VIOL "):
            if b.startswith("VIOL "):
                acc.violation("%s/compat-symbol/%s" % (PID, b.split()[1]), "with the fresh library: " + b, {"input": part[:3]})
            continue
        acc.count("evaluations")
        acc.count("lines_compared")
        acc.cls(("transcript", a[:1]))
        if a != b:
            src = ""
            acc.violation("%s/transcript-differs/%s" % (PID, a[:1]),
                          "old client sees %r with the released library but %r with the fresh one" % (a[:300], b[:300]),
                          {"cmd": "LD_LIBRARY_PATH=%s %s" % (sodir, exe)})
    return acc
