"""C08 - re-entrant interfaces are thread-safe (DESIGN §4 C08).

ThreadSanitizer build: T threads released by a barrier run a seeded mix of
crypt_r / crypt_rn / crypt_ra / crypt_gensalt_rn / _ra / crypt_checksalt /
crypt_preferred_method on their own objects; results are compared with a
sequentially computed table; measured overlap of calls is reported.  Positive
control: the same binary with the documented MT-unsafe crypt() must make TSan
speak, otherwise the run is void (exit 2)."""
import os
import re
import subprocess

from .. import common, facts, gen, pool, rt

PID = "C08"
FL = "tsan"
BUDGET = 14000


def corpus(seed):
    rng = rt.rng_for(seed, PID, "corpus")
    lines = []
    n = 0
    for m in gen.METHODS:
        k = 0
        tries = 0
        while k < 3 and tries < 300:
            tries += 1
            s, form = gen.gen_valid(rng, m)
            p = gen.gen_phrase(rng, rng.choice([0, 8, 20, 64, 200]))
            if gen.cost_units(s, len(p)) > BUDGET:
                continue
            lines.append("mtadd c %d %s %s" % (gen.MID[m], pool.hx(p), pool.hx(s)))
            k += 1
        # a failing request of this method
        s, _ = gen.gen_valid(rng, m)
        lines.append("mtadd c %d %s %s" % (gen.MID[m], pool.hx(b"pw"), pool.hx(s[:2] + b":" + s[2:])))
    for m in facts.GENSALT_METHODS:
        cnt = {"sunmd5": 0, "sha1crypt": 0}.get(m, 0)
        lines.append("mtadd g %d %s %d %s" % (gen.MID[m] + 20, pool.hx(gen.TAG[m]), cnt,
                                               pool.hx(facts.rbytes_pattern("rnd", 32, gen.MID[m]))))
        lines.append("mtadd g %d %s %d -" % (gen.MID[m] + 20, pool.hx(gen.TAG[m]), cnt))
    # NULL prefix: "the best method this build has", looked up by the library itself
    lines.append("mtadd g %d - 0 %s" % (gen.MID["yescrypt"] + 20, pool.hx(facts.rbytes_pattern("rnd", 32, 99))))
    lines.append("mtadd g %d - 0 -" % (gen.MID["yescrypt"] + 20))
    return lines


def tsan_reports(text):
    """report blocks with a library frame (not the harness)"""
    blocks = re.split(r"(?=WARNING: ThreadSanitizer)", text)
    out = []
    for b in blocks:
        if not b.startswith("WARNING: ThreadSanitizer"):
            continue
        frames = re.findall(r"#\d+ (\S+) (\S+)", b)
        libf = [f for f, loc in frames if "/lib/" in loc and "/harness/" not in loc]
        out.append((b.split("\n")[0], libf[:4], b[:2500]))
    return out


def one_run(path, lines, nt, iters, seed, static_api, only=-1, env=None):
    w = pool.Worker(path, env=env)
    res, end = w.run(lines + ["mt %d %d %d %d %d" % (nt, iters, seed, static_api, only)], 900)
    err = w.stderr_text()
    w.stop()
    return res, end, err


def do_run(args):
    """kind: 'mix' (all methods, table computed first), 'hammer' (one method only: maximal overlap inside
    one method's code), 'cold' (one method only, fresh process, expectations computed AFTER the threads ran:
    the very first use of every lazily initialised thing happens concurrently)"""
    path, lines, nt, iters, seed = args[:5]
    kind = args[5] if len(args) > 5 else "mix"
    only = args[6] if len(args) > 6 else -1
    acc = common.Acc()
    pre = (["mtcold 1"] if kind.startswith("cold") else []) + lines
    env = None
    if kind == "locale":
        from .. import locale8
        env = {"LOCPATH": args[7]}
        pre = ["setlocale " + locale8.NAME] + pre
    res, end, err = one_run(path, pre, nt, iters, seed, 0, only, env)
    acc.count("runs_" + kind)
    lines = pre + ["# kind=%s only=%s" % (kind, only)]
    lines = pre
    if isinstance(end, pool.Death):
        rt.death_violation(acc, PID, end, FL, "mt %d %d %d 0 %d" % (nt, iters, seed, only), "mt-" + kind, lines)
        return acc
    if end is not None:
        acc.inconc("mt run timed out (threads=%d)" % nt)
        return acc
    r = res[-1]
    acc.count("evaluations", int(r["calls"]))
    acc.count("runs")
    acc.count("overlapping_call_pairs", int(r["overlaps"]))
    acc.sets["mpairs"].add((nt, int(r["mpairs"])))
    acc.count("method_pairs_overlapped_max", 0)
    acc.cls((kind, "threads", nt))
    acc.cls((kind, only, nt))
    if int(r["mism"]):
        first = bytes.fromhex(r.get("first", "")).decode("latin1") if r.get("first") else ""
        acc.violation("%s/result-differs-under-concurrency" % PID,
                      "threads=%d: %s of %s calls returned something else than the sequential table; first: %s" % (
                          nt, r["mism"], r["calls"], first),
                      rt.replay_obj(FL, lines + ["mt %d %d %d 0 %d" % (nt, iters, seed, only)]))
    if r.get("loc") == "0":
        acc.violation("%s/process-locale-changed" % PID,
                      "threads=%d: the process locale was %r before the concurrent calls and is %r after them" % (
                          nt, bytes.fromhex(r.get("locb", "")), bytes.fromhex(r.get("loca", ""))),
                      rt.replay_obj(FL, lines + ["mt %d %d %d 0 %d" % (nt, iters, seed, only)]))
    if kind == "locale":
        acc.count("runs_in_a_single_byte_locale")
    acc.count("os_entropy_salts_compared", int(r.get("ossalts", 0)))
    if int(r.get("osdups", 0)) or int(r.get("osflat", 0)):
        first = bytes.fromhex(r.get("first", "")).decode("latin1") if r.get("first") else ""
        acc.violation("%s/os-entropy-salt-repeated-under-concurrency" % PID,
                      "threads=%d: of %s salts drawn from the operating system's generator %s were returned twice and "
                      "%s consist of one repeated character; first: %s" % (nt, r["ossalts"], r["osdups"], r["osflat"], first),
                      rt.replay_obj(FL, lines + ["mt %d %d %d 0 %d" % (nt, iters, seed, only)]))
    reps = tsan_reports(err)
    for head, libf, text in reps:
        acc.violation("%s/tsan/%s" % (PID, (libf[0] if libf else "no-lib-frame")),
                      "threads=%d %s frames=%s :: %s" % (nt, head, libf, text[:900].replace("\n", " | ")),
                      rt.replay_obj(FL, lines + ["mt %d %d %d 0 %d" % (nt, iters, seed, only)], text))
    acc.count("tsan_reports", len(reps))
    acc.sample({"threads": nt, "iters": iters, "calls": int(r["calls"]), "overlaps": int(r["overlaps"]),
                "distinct_method_pairs_overlapped": int(r["mpairs"])}, cap=3)
    return acc


def helgrind(run_, lines, seed):
    exe = rt.TREE.program("opt", "vw.c")
    inp = "\n".join(lines + ["mt 4 60 %d 0" % seed, "quit"]) + "\n"
    p = subprocess.run(["valgrind", "--tool=helgrind", "-q", "--error-exitcode=9", exe],
                       input=inp, capture_output=True, text=True, timeout=3000)
    acc = common.Acc()
    acc.count("helgrind_runs")
    if p.returncode == 9 or "Possible data race" in p.stderr:
        fr = re.findall(r"(?:at|by) 0x[0-9A-F]+: (\S+) \((\S+?):\d+\)", p.stderr)
        libf = [f for f, loc in fr if not loc.startswith("vw.c") and "vg_" not in loc and "hg_" not in loc]
        acc.violation("%s/helgrind/%s" % (PID, libf[0] if libf else "?"), p.stderr[:1500], None)
    elif p.returncode != 0:
        acc.inconc("helgrind exit %s" % p.returncode)
    run_.merge(acc)


def run(tier):
    run_ = common.Run(PID, tier, "exploration")
    rt.prepare([FL, "opt"])
    path = rt.PATHS["vw-" + FL]
    lines = corpus(run_.seed)
    # every method must be present in the corpus with a request that succeeds
    w = pool.Worker(path)
    res, end = w.run(lines, 300)
    w.stop()
    present = {m: 0 for m in gen.METHODS}
    if end is None:
        for ln, r in zip(lines, res):
            t = ln.split()
            if t[1] == "c" and r.get("x", "-") != "-":
                present[gen.METHODS[int(t[2])]] += 1
    if tier == "quick":
        plan = [(8, 150), (8, 150), (4, 150), (16, 80), (40, 30)]
    else:
        plan = [(t, 400) for t in (2, 4, 8, 16) for _ in range(3)] + [(40, 100), (64, 60)]
    work = [(path, lines, nt, it, run_.seed * 1000 + i) for i, (nt, it) in enumerate(plan)]
    reps = 1 if tier == "quick" else 4
    for k in range(reps):
        for mi, m in enumerate(gen.METHODS):
            work.append((path, lines, 8, 40 if tier == "quick" else 150, run_.seed * 7777 + mi + 100 * k, "hammer", mi))
            work.append((path, lines, 8, 6, run_.seed * 9999 + mi + 100 * k, "cold", mi))
    # first use of everything behind crypt_gensalt* (incl. the NULL-prefix lookup) made concurrently, in many fresh
    # processes
    glines_all = [ln for ln in lines if ln.startswith("mtadd g ")]
    nullg = [ln for ln in glines_all if ln.split()[3] == "-"]
    for k in range(10 if tier == "quick" else 120):
        work.append((path, nullg if k % 2 else glines_all, 8, 3, run_.seed * 5555 + k, "cold-gensalt", -1))
    # a process that has selected a locale (login, su): the calls must leave it alone
    from .. import locale8
    locpath = locale8.ensure()
    if locpath:
        for k in range(2 if tier == "quick" else 8):
            work.append((rt.PATHS["vw-opt"], lines, 8, 60, run_.seed * 6666 + k, "locale", -1, locpath))
    # runs are themselves multi-threaded: keep a few side by side only
    for acc in pool.pmap(do_run, work, nproc=3):
        run_.merge(acc)
    # the same per-method hammer on the -O2 build without TSan: thousands of overlapping calls per method, judged
    # by result comparison only - shared state inside uninstrumented libc (l64a(), strtok()...) is invisible to a
    # race detector but not to the sequential table
    opt_path = rt.PATHS["vw-opt"]
    owork = []
    for mi, m in enumerate(gen.METHODS):
        costs = []
        for ln in lines:
            t = ln.split()
            if t[1] == "c" and int(t[2]) == mi:
                costs.append(gen.cost_units(bytes.fromhex(t[4]) if t[4] not in (".", "-") else b"", 20))
        avg = max(1.0, sum(costs) / max(1, len(costs)))
        iters = int(min(4000, max(60, (900000 if tier == "quick" else 4000000) / avg)))
        owork.append((opt_path, lines, 8, iters, run_.seed * 31 + mi, "opt-hammer", mi))
    # "any number of threads": far more callers than cores, all inside the library at once
    owork.append((opt_path, lines, 48, 60 if tier == "quick" else 300, run_.seed * 37 + 1, "opt-many-threads", -1))
    owork.append((opt_path, lines, 64, 40 if tier == "quick" else 200, run_.seed * 37 + 2, "opt-many-threads", -1))
    for acc in pool.pmap(do_run, owork, nproc=4):
        run_.merge(acc)
    # a few LARGE hashes at the same time (512 MiB each, 1.5-2 GiB together): what concurrent calls share may be a
    # budget rather than a buffer.  -O2 build, judged by the sequential table.
    big = ["mapcap %d" % (1 << 30)]
    for i, s in enumerate((b"$7$F" + gen.enc64_le(32, 5) + gen.enc64_le(1, 5) + b"saltsalt",        # N = 2^17, r = 32
                           b"$7$F" + gen.enc64_le(32, 5) + gen.enc64_le(1, 5) + b"otherSalt",
                           b"$y$jET$" + gen.yes_encode64(b"0123456789abcdef"),                         # 512 MiB as well
                           b"$7$E" + gen.enc64_le(32, 5) + gen.enc64_le(1, 5) + b"saltsalt")):
        mid = gen.MID["yescrypt" if s.startswith(b"$y$") else "scrypt"]
        big.append("mtadd c %d %s %s" % (mid, pool.hx(b"big phrase %d" % i), pool.hx(s)))
    for acc in pool.pmap(do_run, [(rt.PATHS["vw-opt"], big, 4, 2, run_.seed * 17 + 3, "big-overlap", -1)], nproc=1):
        run_.merge(acc)
    # the mixed run again on a TSan build that has to use the library's own explicit_bzero (a C library without
    # one): other shared state may live there
    from . import C19
    import shutil
    none = {"HAVE_EXPLICIT_BZERO": None, "HAVE_MEMSET_S": None, "HAVE_EXPLICIT_MEMSET": None, "HAVE_MEMSET_EXPLICIT": None,
            "HAVE_ARC4RANDOM_BUF": None}        # ... and without arc4random_buf: getentropy() is the entropy source
    bname, en, vexe, verr, _ = C19.build_config(("c08-fallbacks", list(gen.METHODS), none, "-O1 -g -fsanitize=thread"))
    if vexe is None:
        run_.acc.inconc("TSan build with the fallback implementations failed: " + verr[-300:])
    else:
        try:
            vwork = [(vexe, lines, 8, 100 if tier == "quick" else 300, run_.seed * 4242 + i, "mix-fallbacks", -1)
                     for i in range(2 if tier == "quick" else 8)]
            # setting generation only (half of it with entropy from the operating system): every thread inside
            # the entropy source at once
            glines = [ln for ln in lines if ln.startswith("mtadd g ")]
            vwork += [(vexe, glines, nt_, 400 if tier == "quick" else 2000, run_.seed * 4343 + nt_, "gensalt-fallbacks", -1)
                      for nt_ in (8, 24)]
            for acc in pool.pmap(do_run, vwork, nproc=2):
                run_.merge(acc)
        finally:
            shutil.rmtree(os.path.dirname(vexe), ignore_errors=True)
    # positive control
    res, end, err = one_run(path, lines, 2, 400, run_.seed, 2)
    ctrl = len(tsan_reports(err))
    if ctrl == 0:
        run_.harness_error("positive control silent: TSan did not report the documented race in crypt()")
    if tier == "thorough":
        helgrind(run_, lines, run_.seed)
    a = run_.acc
    cov = {
        "rule": "run = T threads x N calls drawn from a corpus of %d items (all 16 methods, succeeding and failing "
                "requests, gensalt with supplied and OS entropy) over the re-entrant entry points, each thread on its "
                "own objects; every result compared with the table computed sequentially beforehand; overlap measured "
                "from per-call timestamps; plus per-method 'hammer' runs (all threads inside one method) and 'cold' "
                "runs (fresh process, one method, expectations computed after the threads ran so that first use is "
                "concurrent); distinct = (run kind, method, thread count)" % len(lines),
        "runs": int(a.n.get("runs", 0)),
        "runs_by_kind": {k: int(a.n.get("runs_" + k, 0)) for k in ("mix", "hammer", "cold", "cold-gensalt", "locale", "opt-hammer", "opt-many-threads",
                                                                        "big-overlap", "mix-fallbacks", "gensalt-fallbacks")},
        "salts_from_os_entropy_compared_for_repeats": int(a.n.get("os_entropy_salts_compared", 0)),
        "overlapping_cross_thread_call_pairs": int(a.n.get("overlapping_call_pairs", 0)),
        "distinct_method_pairs_overlapped_per_run": sorted(a.sets.get("mpairs", ())),
        "tsan_reports_with_library_frames": int(a.n.get("tsan_reports", 0)),
        "positive_control_reports": ctrl,
        "helgrind_runs": int(a.n.get("helgrind_runs", 0)),
        "flavour": "gcc -fsanitize=thread" + (" + helgrind on -O2" if tier == "thorough" else ""),
    }
    return run_.finish(cov, assumptions=[
        "TSan judges the schedules that ran; its happens-before analysis reports an unsynchronised pair whichever "
        "thread won, and the library has no internal synchronisation",
        "only the configured RNG path (arc4random_buf) exists in this build"],
        min_conclusive=1000, required=present)
