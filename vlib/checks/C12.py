"""C12 - generated salts carry the supplied randomness; auto-entropy comes from
the OS (DESIGN §4 C12).

Bit-flip injectivity over the window the *result* shows to be consumed, the
salt-size clauses, and the OS-entropy path observed through the interposed
arc4random_buf."""
import json
import os
import subprocess

from .. import build, common, decode, facts, gen, pool, rt
from ..pool import Death, Timeout

PID = "C12"
FL = "asan"


def salted_methods():
    return [m for m in facts.GENSALT_METHODS if m != "nt"]


def make_jobs(seed, tier):
    jobs = []
    nrs = list(range(0, 65)) + ([96, 128, 256] if tier == "quick" else list(range(65, 257)))
    pats = ["rnd", "zero", "ff"] + (["rnd%d" % k for k in range(6)] if tier == "thorough" else [])
    for m in facts.GENSALT_METHODS + [None]:
        for nr in nrs:
            jobs.append((m, nr, pats if (tier == "thorough" or nr <= 24 or nr in (32, 48, 64)) else pats[:1], seed))
    return jobs


def salt_of(fm, g):
    d = decode.decode(fm, g)
    return d


def do_jobs(jobs):
    acc = common.Acc()
    w = rt.vw(FL)
    for (m, nr, pats, seed) in jobs:
        fm = m or "yescrypt"
        name = m or "NULL"
        prefix = gen.TAG[m] if m else None
        for pat in pats:
            rb = facts.rbytes_pattern(pat, nr, seed * 7 + nr)
            # 192 bytes are guaranteed to suffice only up to 64 random bytes (C13)
            osz = 192 if nr <= 64 else 1024
            base_line = rt.gensalt_line("rn", prefix, 0, rb, nr, osz)
            res, end = w.run([base_line], 60)
            acc.count("evaluations")
            if isinstance(end, Death):
                rt.death_violation(acc, PID, end, FL, base_line, "gensalt/" + name)
                continue
            if end is not None:
                acc.inconc("timeout")
                continue
            r = res[0]

            def viol(kind, detail, extra=()):
                acc.violation("%s/%s/%s" % (PID, kind, name),
                              "prefix=%s nrbytes=%d pattern=%s: %s" % (name, nr, pat, detail),
                              rt.replay_obj(FL, [base_line] + list(extra)))
            if r["r"] != "O":
                acc.cls((name, "fail", nr))
                if fm == "bcrypt_x":
                    continue
                if nr >= facts.MIN_NRBYTES[fm]:
                    viol("enough-bytes-refused", "%d random bytes are enough for a salt but the call fails (errno %s)" % (nr, r["e"]))
                elif rt.errno_of(r) != rt.EINVAL:
                    viol("errno", "too few random bytes must give EINVAL, got %s" % r["e"])
                continue
            g = rt.out_of(r)
            d = salt_of(fm, g)
            if d is None:
                viol("undecodable", "generated setting %r has not the documented shape" % g)
                continue
            if fm == "nt":
                continue
            L = len(d["salt"])
            acc.cls((name, "ok", nr))
            acc.count("ok/" + name)
            if L == 0:
                viol("empty-salt", "succeeds with an empty salt: %r" % g)
                continue
            if L < facts.MIN_SALT_CHARS[fm]:
                viol("salt-below-minimum", "salt of %d characters (< %d): %r" % (L, facts.MIN_SALT_CHARS[fm], g))
            if nr >= 16 and L < facts.STD_SALT_CHARS[fm]:
                viol("salt-below-standard", "with %d random bytes the salt has only %d characters (standard %d): %r" % (
                    nr, L, facts.STD_SALT_CHARS[fm], g))
            if fm in ("scrypt", "yescrypt", "gost_yescrypt") and nr >= 16:
                # these methods take 128..512 bits of salt: all supplied bytes up to 64
                want_bits = min(nr, 64) * 8
                if L * 6 < want_bits:
                    viol("salt-ignores-supplied-bytes", "%d random bytes supplied but the salt %r carries only %d bits "
                                                        "(documented 128..512)" % (nr, d["salt"], L * 6))
            if nr < facts.MIN_NRBYTES[fm]:
                viol("too-few-bytes-accepted", "only %d random bytes but a setting was produced: %r" % (nr, g))
            off, k, mode = decode.consumed_window(fm, L)
            if off + k > nr:
                viol("salt-longer-than-input", "salt field of %d characters cannot come from %d bytes" % (L, nr))
                continue
            # every single-bit flip inside the consumed window must change the salt field
            lines, meta = [], []
            for bi in range(off * 8, (off + k) * 8):
                if mode == "low6" and (bi % 8) >= 6:
                    continue
                b2 = bytearray(rb)
                b2[bi // 8] ^= 1 << (bi % 8)
                lines.append(rt.gensalt_line("rn", prefix, 0, bytes(b2), nr, osz))
                meta.append(bi)
            if fm == "sunmd5":
                for bi in range(0, 16):
                    b2 = bytearray(rb)
                    b2[bi // 8] ^= 1 << (bi % 8)
                    lines.append(rt.gensalt_line("rn", prefix, 0, bytes(b2), nr, osz))
                    meta.append(("rounds", bi))
            rows = rt.run_resilient(w, [], lines)
            for bi, r2, ln in zip(meta, rows, lines):
                if not isinstance(r2, dict):
                    continue
                acc.count("bit_flips")
                acc.count("bf/" + name)
                g2 = rt.out_of(r2) if r2["r"] == "O" else None
                d2 = salt_of(fm, g2) if g2 else None
                if d2 is None:
                    viol("flip-breaks-result", "flipping bit %s makes the call fail or the result undecodable" % (bi,), [ln])
                    continue
                if isinstance(bi, tuple):
                    # sunmd5 bytes 0-1 perturb the round count: rounds - 32768 = 256*b0 + b1
                    b2 = bytearray(rb)
                    b2[bi[1] // 8] ^= 1 << (bi[1] % 8)
                    want = 32768 + 256 * b2[0] + b2[1]
                    if d2["cost"] != want:
                        viol("sunmd5-round-bytes", "rounds=%d, expected %d from bytes %02x %02x" % (
                            d2["cost"], want, b2[0], b2[1]), [ln])
                    continue
                if d2["salt"] == d["salt"]:
                    viol("not-injective", "flipping bit %d of the random bytes (inside the %d bytes the salt encodes) "
                                          "leaves the salt %r unchanged" % (bi, k, d["salt"]), [ln])
            if len(acc.samples) < 3 and nr in (16, 3, 64):
                acc.sample({"prefix": name, "nrbytes": nr, "generated": g.decode("latin1"), "salt_chars": L,
                            "window_bytes": [off, off + k], "flips": len(meta)})
    return acc


def do_entropy(args):
    """rbytes == NULL: the OS source is asked exactly once for hashes.conf's
    byte count and its bytes - nothing else - determine the salt"""
    seed, conf = args
    acc = common.Acc()
    w = rt.vw(FL)
    sub = bytes((i * 73 + 29) & 0xFF or 1 for i in range(40))
    for m in facts.GENSALT_METHODS + [None]:
        fm = m or "yescrypt"
        name = m or "NULL"
        prefix = gen.TAG[m] if m else None
        for entry in ("rn", "ra", "st"):
            ln = rt.gensalt_line(entry, prefix, 0, None, 0, 192)
            res, end = w.run(["ent " + sub.hex(), ln], 60)
            acc.count("evaluations")
            if end is not None:
                if isinstance(end, Death):
                    rt.death_violation(acc, PID, end, FL, ln, "entropy/" + name)
                continue
            r = res[1]
            acc.cls((name, "entropy", entry))

            def viol(kind, detail, extra=()):
                acc.violation("%s/%s/%s" % (PID, kind, name), "entry=%s: %s (%s)" % (entry, detail, r),
                              rt.replay_obj(FL, ["ent " + sub.hex(), ln] + list(extra)))
            if r["r"] == "N":
                viol("auto-entropy-failed", "rbytes=NULL fails with errno %s" % r["e"])
                continue
            g = rt.out_of(r)
            if r.get("gc") != "1":
                viol("os-source-not-asked-once", "arc4random_buf was called %s times" % r.get("gc"))
                continue
            n = int(r.get("gn", "0"))
            if conf.get(fm) is not None and n != conf[fm]:
                viol("os-byte-count", "asked the OS for %d bytes, hashes.conf says %d" % (n, conf[fm]))
            exp_line = rt.gensalt_line("rn", prefix, 0, (sub * 8)[:n], n, 192)
            r2, e2 = w.run(["ent -", exp_line], 60)
            if e2 is None:
                acc.count("os_bytes_determine_salt")
                if rt.out_of(r2[1]) != g:
                    viol("os-bytes-not-used", "with the OS bytes passed explicitly the result is %r, via NULL it is %r" % (
                        rt.out_of(r2[1]), g), [exp_line])
            d = decode.decode(fm, g)
            if fm != "nt" and (d is None or len(d["salt"]) < facts.STD_SALT_CHARS[fm]):
                viol("auto-salt-below-standard", "auto-entropy salt %r is smaller than the standard size" % g)
    # real OS entropy: repeated calls give different salts
    w.run(["ent -"], 30)
    for m in salted_methods():
        lines = [rt.gensalt_line("rn", gen.TAG[m], 0, None, 0, 192) for _ in range(64)]
        res, end = w.run(lines, 120)
        if end is not None:
            continue
        outs = set(rt.out_of(r) for r in res if r["r"] == "O")
        acc.count("os_draws", len(res))
        need = 32 if m in ("descrypt", "bigcrypt") else 60
        acc.cls((m, "os-distinct"))
        if len(outs) < need:
            acc.violation("%s/os-salts-repeat/%s" % (PID, m),
                          "64 calls with rbytes=NULL gave only %d distinct settings" % len(outs),
                          rt.replay_obj(FL, lines[:4]))
    return acc


def do_sizes(args):
    """Buffers smaller than the documented size: a call that succeeds with less
    room must still not return an empty or below-minimum salt."""
    seed, ms = args
    acc = common.Acc()
    w = rt.vw(FL)
    for m in ms:
        fm = m or "yescrypt"
        name = m or "NULL"
        prefix = gen.TAG[m] if m else None
        for nr in (16, 24, 64):
            rb = facts.rbytes_pattern("rnd", nr, seed * 11 + nr)
            lines = [rt.gensalt_line("rn", prefix, 0, rb, nr, osz) for osz in range(1, 192)]
            rows = rt.run_resilient(w, [], lines)
            for osz, r, ln in zip(range(1, 192), rows, lines):
                acc.count("evaluations")
                if isinstance(r, Death):
                    rt.death_violation(acc, PID, r, FL, ln, "gensalt-size/" + name)
                    continue
                if not isinstance(r, dict) or r["r"] != "O" or fm == "nt":
                    continue
                g = rt.out_of(r)
                d = salt_of(fm, g)
                acc.count("small_buffer_successes")
                acc.cls((name, "small-buffer-ok", nr))
                L = len(d["salt"]) if d else 0
                if d is None or L == 0 or L < facts.MIN_SALT_CHARS[fm]:
                    acc.violation("%s/%s/%s" % (PID, "empty-salt" if not L else "salt-below-minimum", name),
                                  "prefix=%s nrbytes=%d output_size=%d: succeeds with %r (salt of %d characters, minimum %d)" % (
                                      name, nr, osz, g, L, facts.MIN_SALT_CHARS[fm]), rt.replay_obj(FL, [ln]))
    return acc


VRAND_WRAPS = "-Wl,--wrap=getentropy,--wrap=getrandom,--wrap=syscall,--wrap=open,--wrap=read,--wrap=close"


def do_chain(args):
    """The fallback chain of get_random_bytes in the configuration without
    arc4random_buf: getentropy, getrandom, raw syscall, /dev/urandom, each
    mocked to work, fail, deliver short, be interrupted or hit EOF (harness
    vrand.c; one process per schedule)."""
    seed, = args
    acc = common.Acc()
    tree = rt.TREE
    obj = tree.variant_object(FL, "util-get-random-bytes.c", "noarc4", {"HAVE_ARC4RANDOM_BUF": None})
    exe = tree.program(FL, "vrand.c", name="vrand", wrap=False, libs=VRAND_WRAPS,
                       replace={"util-get-random-bytes.o": obj})
    pres = ["-"] + [pool.hx(gen.TAG[m]) for m in salted_methods() if m not in ("descrypt",)]
    cmd = [exe, str(seed)] + pres
    env = dict(os.environ, ASAN_OPTIONS="detect_leaks=0:abort_on_error=0", UBSAN_OPTIONS="print_stacktrace=1")
    try:
        p = subprocess.run(cmd, stdout=subprocess.PIPE, stderr=subprocess.PIPE, text=True, env=env, timeout=1500)
    except subprocess.TimeoutExpired:
        acc.inconc("entropy-chain monitor timed out")
        return acc
    stat = None
    for ln in p.stdout.splitlines():
        if ln.startswith("VIOL "):
            t = ln.split(" ", 2)
            acc.violation("%s/entropy-chain/%s" % (PID, t[1]), t[2][:900], {"cmd": " ".join(cmd)})
        elif ln.startswith("STAT "):
            stat = json.loads(ln[5:])
    if stat is None:
        acc.violation(PID + "/entropy-chain/monitor-died", "rc=%s %s" % (p.returncode, (p.stderr or p.stdout)[-600:]),
                      {"cmd": " ".join(cmd)})
        return acc
    acc.count("evaluations", stat["evaluations"])
    for k, v in stat.items():
        acc.count("chain/" + k, v)
        if k.startswith("reached_") and v:
            acc.cls(("entropy-chain", k))
    return acc


def run(tier):
    run_ = common.Run(PID, tier, "exploration")
    rt.prepare([FL])
    conf = decode.hashes_conf_nrbytes(os.path.join(build.REPO, "lib", "hashes.conf"))
    jobs = make_jobs(run_.seed, tier)
    for acc in pool.pmap(do_jobs, pool.chunks(jobs, 12)):
        run_.merge(acc)
    for acc in pool.pmap(do_entropy, [(run_.seed, conf)]):
        run_.merge(acc)
    allm = facts.GENSALT_METHODS + [None]
    for acc in pool.pmap(do_sizes, [(run_.seed, allm[i::8]) for i in range(8)]):
        run_.merge(acc)
    run_.merge(do_chain((run_.seed,)))
    a = run_.acc
    cov = {
        "rule": "case = (prefix incl. NULL, nrbytes 0..64 each (+ larger), byte pattern); the window of consumed "
                "bytes is read off the generated salt field (length x packing, documented offset) and every single "
                "bit inside it is flipped; size clauses; OS entropy observed at the interposed arc4random_buf; "
                "distinct = (prefix, outcome, nrbytes)",
        "bit_flips": int(a.n.get("bit_flips", 0)),
        "exhaustive": True,
        "os_entropy_calls_with_known_bytes": int(a.n.get("os_bytes_determine_salt", 0)),
        "os_entropy_draws_unwrapped": int(a.n.get("os_draws", 0)),
        "flavour": FL + " + arc4random_buf interposition",
        "successes_with_buffers_below_192": int(a.n.get("small_buffer_successes", 0)),
        "entropy_chain": {k[6:]: int(v) for k, v in a.n.items() if k.startswith("chain/")},
        "entropy_chain_rule": "util-get-random-bytes.c rebuilt without HAVE_ARC4RANDOM_BUF; schedules = product of "
                              "{ok,fail} getentropy x {ok,fail,short} getrandom x same for the raw syscall x {ok,fail} "
                              "open x {ok,fail,short,EINTR once,EOF} read x {all broken, all fine, same} for the "
                              "following call x short lengths {1,5,16,255}; buffer lengths 1..256; on success every "
                              "byte must come from a logged delivery; through crypt_gensalt_rn(prefix,0,NULL,0) the "
                              "setting must equal the one the delivered bytes give explicitly",
    }
    return run_.finish(cov, assumptions=[
        "bytes a method does not encode are not judged (how many must be encoded is the size clause)",
        "sha1crypt bytes 0-3 only perturb the round count through a modulus and are not required to be injective",
        "exhaustive refers to the bit positions of the consumed window for each executed (prefix, nrbytes, pattern)",
        "distinct-salt thresholds have false-alarm probability < 2^-64 for a uniform source"],
        min_conclusive=2000, conclusive=int(a.n.get("bit_flips", 0)),
        required={m: a.n.get("bf/" + m, 0) for m in salted_methods() + ["NULL"]})
