"""C07 - hashing is a pure function across entry points and call history
(DESIGN §4 C07).

Isolation table: every distinct request of the run is answered once by a
fresh worker process on a fresh zeroed object.  History workers then execute
long random call sequences over shared, misaligned, re-filled objects and the
library's static areas (all four entry points, crypt_gensalt -> crypt without
copying, the obsolete DES API in the shared-library flavour, uninitialised
objects under MSan) and every answer is compared with the table."""
from .. import common, facts, gen, pool, rt
from ..pool import Death, Timeout

PID = "C07"
BUDGET = 9000
ENTRIES = ["crypt", "crypt_r", "crypt_rn", "crypt_ra"]
SIBLING = {}


def make_requests(seed, tier):
    rng = rt.rng_for(seed, PID, "requests")
    reqs = []
    per = 5 if tier == "quick" else 12
    for m in gen.METHODS:
        n = 0
        tries = 0
        while n < per and tries < 200:
            tries += 1
            s, form = gen.gen_valid(rng, m)
            p = gen.gen_phrase(rng, rng.choice([0, 1, 8, 9, 20, 64, 73, 200, 511]))
            if gen.cost_units(s, len(p)) > BUDGET:
                continue
            reqs.append((m, p, s))
            n += 1
    # sibling phrases: same length, same first 64/72/128 bytes, different tail - a cache keyed on a
    # prefix of the previous call's input would confuse them
    base_n = len(reqs)
    for k in range(0, base_n, 3):
        m, p, s = reqs[k]
        L = rng.choice([80, 100, 130, 200])
        cut = rng.choice([64, 72, 128]) if L > 128 else rng.choice([64, 72])
        head = gen.gen_phrase(rng, cut, "bin")
        a = head + gen.gen_phrase(rng, L - cut, "bin")
        b = head + gen.gen_phrase(rng, L - cut, "bin")
        if gen.cost_units(s, L) > BUDGET:
            continue
        reqs.append((m, a, s))
        reqs.append((m, b, s))
        SIBLING[len(reqs) - 2] = len(reqs) - 1
        SIBLING[len(reqs) - 1] = len(reqs) - 2
    for i in range(30 if tier == "quick" else 80):
        m = rng.choice(gen.METHODS)
        s, f = gen.gen_valid(rng, m)
        s, lab = gen.mutate(rng, s, long_ok=False)
        if gen.cost_units(s, 8) > BUDGET:
            continue
        reqs.append(("mut", gen.gen_phrase(rng, rng.choice([0, 8, 30])), s))
    # empty fields: accepted spellings in which a decoder has nothing to decode - whatever it then uses instead
    # (an unwritten buffer, the previous call's bytes) must not show in the answer
    for m, s in (("yescrypt", b"$y$j5.$"), ("yescrypt", b"$y$j5.$$"), ("yescrypt", b"$y$.5/$"), ("gost_yescrypt", b"$gy$j5.$"),
                 ("gost_yescrypt", b"$gy$j5.$$"), ("scrypt", b"$7$5/..../...."), ("scrypt", b"$7$5/..../....$"),
                 ("md5crypt", b"$1$"), ("md5crypt", b"$1$$"), ("sha256crypt", b"$5$"), ("sha512crypt", b"$6$$"),
                 ("sha512crypt", b"$6$rounds=1000$"), ("sunmd5", b"$md5$"), ("sunmd5", b"$md5,rounds=5$$"), ("nt", b"$3$")):
        reqs.append((m, gen.gen_phrase(rng, rng.choice([0, 8, 30])), s))
    reqs.append(("fail", b"A" * 600, b"$6$salt"))
    reqs.append(("fail", b"pw", b"$9$unknown"))
    reqs.append(("fail", b"pw", b"*0"))
    reqs.append(("fail", None, b"$1$abc"))
    reqs.append(("fail", b"pw", None))
    return reqs


def isolate(args):
    """answers of a batch of requests, each from its own fresh process"""
    path, batch = args
    out = []
    for (idx, p, s) in batch:
        w = pool.Worker(path)
        res, end = w.run([rt.obj_line(0, fill="z"), rt.crypt_line("crypt_rn", 0, p, s)], 200)
        w.stop()
        if end is not None:
            out.append((idx, "DEAD"))
        else:
            out.append((idx, rt.hash_of(res[1])))
    return out


def build_history(rng, reqs, n, flavour):
    """-> (setup lines, lines, meta) ; meta[i] = ('req', idx, entry) | ('gs', ...) | None"""
    aligns = rng.sample(range(16), 3)
    fill0 = "n" if flavour == "msan" else rng.choice("zfr")
    setup = ["preerrno -1",      # errno is whatever the previous call of the history left
             rt.obj_line(0, align=aligns[0], fill=fill0, seed=1),
             rt.obj_line(1, align=aligns[1], fill="n" if flavour == "msan" else "f"),
             rt.obj_line(2, align=aligns[2], fill="n" if flavour == "msan" else "r", seed=2),
             # the crypt_ra pair starts from NULL, or from a caller-supplied block of sufficient size with arbitrary contents
             rng.choice(["raobj 3 -1 0", "raobj 3 %d %d" % (rt.CD_SIZE, rt.CD_SIZE), "raobj 3 40000 40000"])
             if flavour != "msan" else "raobj 3 -1 0"]
    lines, meta = [], []
    last_idx = None
    gens = [m for m in facts.GENSALT_METHODS]
    for i in range(n):
        k = rng.random()
        if k < 0.72:
            idx = rng.randrange(len(reqs))
            if last_idx in SIBLING and rng.random() < 0.5:
                idx = SIBLING[last_idx]
            last_idx = idx
            m, p, s = reqs[idx]
            e = rng.choice(ENTRIES)
            slot = 3 if e == "crypt_ra" else rng.randrange(3)
            lines.append(rt.crypt_line(e, slot, p, s, "=", rng.choice("si")))
            meta.append(("req", idx, e))
        elif k < 0.80:
            slot = rng.randrange(3)
            lines.append("fill %d %s %d" % (slot, rng.choice("zfr") if flavour != "msan" else "r", rng.getrandbits(20)))
            meta.append(None)
        elif k < 0.88:
            m = rng.choice(gens)
            lines.append(rt.gensalt_line(rng.choice(["st", "rn", "ra"]), gen.TAG[m], 0,
                                         facts.rbytes_pattern("rnd", 32, i), 32, 192))
            meta.append(None)
        elif k < 0.95 or flavour != "so-asan":
            m = rng.choice([x for x in gens if x not in ("yescrypt", "gost_yescrypt", "scrypt")] + ["yescrypt"])
            cnt = {"yescrypt": 1, "bcrypt": 4, "bcrypt_a": 4, "bcrypt_y": 4, "sha256crypt": 1000,
                   "sha512crypt": 1000, "sha1crypt": 20, "bsdicrypt": 3}.get(m, 0)
            if m == "sunmd5":       # minimum generated cost is 32768 rounds: too slow for a history
                m, cnt = "md5crypt", 0
            p = gen.gen_phrase(rng, rng.choice([0, 5, 12]))
            lines.append("gscrypt %s %d %s %d %s" % (pool.hx(gen.TAG[m]), cnt,
                                                     pool.hx(facts.rbytes_pattern("rnd", 32, i * 7)), 32, pool.hx(p)))
            meta.append(("gs", p))
        else:
            key = bytes(rng.getrandbits(1) for _ in range(64))
            blk = bytes(rng.getrandbits(8) for _ in range(64))
            c = rng.randrange(3)
            if c == 0:
                lines.append("compat setkey %s" % key.hex())
            elif c == 1:
                lines.append("compat encrypt %s %d" % (blk.hex(), rng.randrange(2)))
            else:
                # encrypt_r is only defined on an object prepared by setkey_r
                # (anything else is a caller error): always issue the pair
                sl = rng.randrange(3)
                lines.append("compat setkey_r %d %s" % (sl, key.hex()))
                meta.append(None)
                lines.append("compat encrypt_r %d %s %d" % (sl, blk.hex(), rng.randrange(2)))
            meta.append(None)
    return setup, lines, meta


def kind_of(reqs, table, mt):
    if mt is None:
        return "aux"
    if mt[0] == "gs":
        return "gensalt->crypt"
    m, p, s = reqs[mt[1]]
    exp = table.get(mt[1])
    if exp is None:
        return "fail"
    return gen.classify(s) or "?"


def do_histories(args):
    flavour, path, reqs, table, seeds, hlen = args
    acc = common.Acc()
    w = pool.worker(path)
    gs_checks = []
    for hs in seeds:
        rng = rt.rng_for(hs, PID, "hist")
        setup, lines, meta = build_history(rng, reqs, hlen, flavour)
        rows = rt.run_resilient(w, setup, lines, timeout=200, stop_on_death=True)
        prev = "start"
        acc.count("histories")
        for i, (ln, mt, r) in enumerate(zip(lines, meta, rows)):
            if isinstance(r, Death):
                rt.death_violation(acc, PID, r, flavour, ln, "history", setup + lines[:i])
                prev = "start"
                continue
            if isinstance(r, Timeout) or r is None:
                acc.inconc("timeout in history")
                continue
            k = kind_of(reqs, table, mt)
            acc.sets["transitions"].add((prev, k))
            prev = k
            if mt is None:
                continue
            acc.count("evaluations")
            if mt[0] == "gs":
                g = rt.unhx(r.get("g", "-"))
                o = rt.unhx(r.get("o", "-")) if r["r"] == "S" else None
                if o is not None and o[:1] == b"*":
                    o = None
                if g is not None:
                    gs_checks.append((mt[1], g, o, setup + lines[:i + 1]))
                continue
            idx, e = mt[1], mt[2]
            exp = table.get(idx)
            if exp == "DEAD":
                continue
            got = rt.hash_of(r)
            acc.cls((flavour, e, k))
            if got != exp:
                m, p, s = reqs[idx]
                acc.violation("%s/history-dependent/%s/%s" % (PID, gen.classify(s) if s else "none", e),
                              "%s step %d entry=%s setting=%r phrase-len=%s: in isolation %r, in this history %r" % (
                                  flavour, i, e, s, len(p) if p is not None else None, exp, got),
                              rt.replay_obj(flavour if flavour != "so-asan" else "asan", setup + lines[:i + 1]))
            if r.get("mu", "-1") != "-1":
                acc.violation("%s/uninit-output/%s" % (PID, e), "result byte %s uninitialised: %s" % (r["mu"], ln[:200]),
                              rt.replay_obj(flavour, setup + lines[:i + 1]))
        if len(acc.samples) < 2:
            acc.sample({"flavour": flavour, "history_seed": hs, "first_lines": lines[:6]})
    # crypt(crypt_gensalt()) must equal crypt_rn(copy of that setting) on a fresh object
    if gs_checks:
        chk = [rt.crypt_line("crypt_rn", 0, p, g) for (p, g, o, _) in gs_checks]
        rows = rt.run_resilient(w, [rt.obj_line(0, fill="z")], chk)
        for (p, g, o, hist), r in zip(gs_checks, rows):
            if not isinstance(r, dict):
                continue
            acc.count("gensalt_static_to_crypt")
            if rt.hash_of(r) != o:
                acc.violation("%s/gensalt-static-to-crypt/%s" % (PID, gen.classify(g) or "?"),
                              "crypt(P, crypt_gensalt()) = %r but crypt_rn(P, copy %r) = %r" % (o, g, rt.hash_of(r)),
                              rt.replay_obj(flavour if flavour != "so-asan" else "asan", hist))
    return acc


def run(tier):
    run_ = common.Run(PID, tier, "exploration")
    tree = rt.prepare(["asan", "msan"])
    so_path = tree.so_program("so-asan", "vw.c", "vw-so-asan")
    reqs = make_requests(run_.seed, tier)
    # isolation table
    batches = pool.chunks([(i, p, s) for i, (m, p, s) in enumerate(reqs)], 4)
    table = {}
    for out in pool.pmap(isolate, [(rt.PATHS["vw-asan"], b) for b in batches]):
        for idx, h in out:
            table[idx] = h
    ndead = sum(1 for v in table.values() if v == "DEAD")
    nh, hl = (300, 40) if tier == "quick" else (4000, 60)
    work = []
    for fl, path, share in (("asan", rt.PATHS["vw-asan"], 0.5), ("msan", rt.PATHS["vw-msan"], 0.2),
                            ("so-asan", so_path, 0.3)):
        n = max(16, int(nh * share))
        seeds = [run_.seed * 100003 + hash(fl) % 1000 * 7 + i for i in range(n)]
        seeds = [run_.seed * 100003 + {"asan": 1, "msan": 2, "so-asan": 3}[fl] * 1000003 + i for i in range(n)]
        for ch in pool.chunks(seeds, max(1, n // 16)):
            work.append((fl, path, reqs, table, ch, hl))
    for acc in pool.pmap(do_histories, work):
        run_.merge(acc)
    a = run_.acc
    cov = {
        "rule": "request pool answered in isolation (one fresh process and zeroed object per request); histories of "
                "%d steps over 3 shared heap objects (random alignments, refilled with 0x00/0xFF/random between "
                "calls), the crypt_ra pair and the static areas, entry point and argument placement random per step; "
                "distinct = (flavour, entry point, request kind) cells compared with the table" % hl,
        "distinct_requests": len(reqs),
        "isolation_processes": len(table),
        "isolation_deaths": ndead,
        "histories": int(a.n.get("histories", 0)),
        "transitions_seen": len(a.sets.get("transitions", ())),
        "gensalt_static_to_crypt_checked": int(a.n.get("gensalt_static_to_crypt", 0)),
        "flavours": ["asan", "msan (uninitialised objects)", "so-asan (with setkey/encrypt[_r] interleaved)"],
    }
    return run_.finish(cov, assumptions=[
        "state that needs a specific expensive predecessor is not reached (cheap cost parameters only)"],
        min_conclusive=3000)
