"""C17 - DES core and the obsolete setkey/encrypt API implement standard DES
(DESIGN §4 C17)."""
import json
import os
import subprocess

from .. import build, common, pool, ref, rt

PID = "C17"


def run_tool(acc, run_, exe, args, timeout=3000):
    env = dict(os.environ, ASAN_OPTIONS="abort_on_error=1:detect_leaks=0",
               UBSAN_OPTIONS="print_stacktrace=1:halt_on_error=1")
    p = subprocess.run([exe] + args, stdout=subprocess.PIPE, stderr=subprocess.PIPE, text=True, env=env,
                       timeout=timeout)
    salted = []
    stats = {}
    if p.returncode not in (0, 1):
        if "Sanitizer" in p.stderr or "runtime error" in p.stderr or p.returncode < 0:
            acc.violation("%s/sanitizer/%s" % (PID, args[0]), p.stderr[:1500].replace("\n", " | "),
                          {"cmd": " ".join([exe] + args)})
        else:
            run_.harness_error("vdes exit %s: %s" % (p.returncode, p.stderr[-300:]))
        return salted, stats
    for ln in p.stdout.splitlines():
        if ln.startswith("VIOL "):
            _, what, detail = ln.split(" ", 2)
            acc.violation("%s/%s" % (PID, what), detail, {"cmd": " ".join([exe] + args)})
        elif ln.startswith("CLS "):
            acc.cls(tuple(ln.split()[1:]))
        elif ln.startswith("STAT "):
            stats = json.loads(ln[5:])
        elif ln.startswith("S "):
            salted.append(ln.split()[1:])
    return salted, stats


def check_salted(chunk):
    acc = common.Acc()
    for key, salt, cnt, blk, out in chunk:
        k = int(key, 16)
        want = ref.des_block(ref.des_subkeys(k), int(blk, 16), int(salt), int(cnt))
        acc.count("salted_checked")
        if "%016x" % want != out:
            acc.violation("%s/core-salted" % PID,
                          "des_crypt_block key=%s salt=%s count=%s block=%s gives %s, bit-level model %016x" % (
                              key, salt, cnt, blk, out, want), None)
    return acc


# selections that keep descrypt (so configure keeps the obsolete API) but drop other DES-based methods: the
# four functions must still be DES there.  glibc = the drop-in replacement selection.
SELECTIONS = [("glibc", ["descrypt", "md5crypt", "sha256crypt", "sha512crypt"]),
              ("no-bigcrypt", [m for m in build.ALL_HASHES if m != "bigcrypt"]),
              ("descrypt-bsdicrypt", ["descrypt", "bsdicrypt", "yescrypt"])]


def selection_api(args):
    """(name, hashes, tool args) -> vdes 'api' run against a shared library built for that selection"""
    name, hashes, targs = args
    acc = common.Acc()
    tree = build.Tree()
    d = tree.scratch("c17-" + name)
    try:
        cc, cflags, ldflags = build.FLAVOURS["so-asan"]
        gd = build.gen_headers(os.path.join(d, "gen"), hashes=hashes, obsolete_api=True)
        objs = build.compile_objects(os.path.join(d, "obj"), gd, cc, cflags)
        lib = os.path.join(d, "libcrypt.so.1")
        exe = os.path.join(d, "vdes")
        for cmd in ("%s -shared %s %s -Wl,--version-script=%s -Wl,-soname,libcrypt.so.1 -Wl,-z,defs -Wl,-z,text -o %s %s" % (
                        cc, cflags, " ".join(objs), os.path.join(gd, "libcrypt.map"), lib, ldflags),
                    "%s -std=gnu11 -D_GNU_SOURCE -DVDES_SO %s -I%s -I%s %s -o %s %s -L%s -l:libcrypt.so.1 -Wl,-rpath,%s "
                    "-lpthread -ldl -lnettle" % (cc, cflags.replace("-fPIC -DPIC", ""), gd, build.HARNESS,
                                                 os.path.join(build.HARNESS, "vdes.c"), exe, ldflags, d, d)):
            p = subprocess.run(cmd, shell=True, stdout=subprocess.PIPE, stderr=subprocess.STDOUT, text=True)
            if p.returncode != 0:
                acc.inconc("selection %s does not build: %s" % (name, p.stdout[-300:]))
                return acc, {}
        env = dict(os.environ, ASAN_OPTIONS="abort_on_error=1:detect_leaks=0", UBSAN_OPTIONS="print_stacktrace=1:halt_on_error=1")
        p = subprocess.run([exe] + targs, stdout=subprocess.PIPE, stderr=subprocess.PIPE, text=True, env=env, timeout=3000)
        st = {}
        for ln in p.stdout.splitlines():
            if ln.startswith("VIOL "):
                t = ln.split(" ", 2)
                acc.violation("%s/%s@%s" % (PID, t[1], name), "library built for the selection %s: %s" % (",".join(hashes), t[2]),
                              {"selection": hashes, "args": targs})
            elif ln.startswith("STAT "):
                st = json.loads(ln[5:])
        if p.returncode not in (0, 1):
            acc.violation("%s/died@%s" % (PID, name), "vdes on the selection %s: rc=%s %s" % (",".join(hashes), p.returncode, p.stderr[-600:]),
                          {"selection": hashes, "args": targs})
        acc.count("selection_api_comparisons", st.get("comparisons", 0))
        acc.count("evaluations", st.get("comparisons", 0))
        acc.cls(("selection", name))
        return acc, st
    except build.BuildError as e:
        acc.inconc("selection %s does not build: %s" % (name, str(e)[-300:]))
        return acc, {}
    finally:
        import shutil
        shutil.rmtree(d, ignore_errors=True)


def run(tier):
    run_ = common.Run(PID, tier, "exploration")
    bad = [b for b in ref.selftest() if "DES" in b or "nettle" in b]
    if bad:
        run_.harness_error("DES reference self-test failed: %s" % bad)
    tree = rt.prepare([])
    api = tree.so_program("so-asan", "vdes.c", "vdes-so-asan", defs="-DVDES_SO", libs="-lnettle")
    core = tree.program("asan", "vdes.c", name="vdes-core-asan", wrap=False, libs="-lnettle",
                        extra_cflags="-DVDES_CORE")
    # the API also on a -DNDEBUG build of the shared library (an assert() around a call with an effect disappears there)
    api_nd = tree.so_program("so-ndebug", "vdes.c", "vdes-so-ndebug", defs="-DVDES_SO", libs="-lnettle")
    # ... and on one for a target where plain char is unsigned
    api_uc = tree.so_program("so-uchar", "vdes.c", "vdes-so-uchar", defs="-DVDES_SO", libs="-lnettle")
    n_api, n_core, n_salt = (20000, 20000, 2400) if tier == "quick" else (2000000, 1000000, 200000)
    acc = common.Acc()
    nproc = 1 if tier == "quick" else 8
    import concurrent.futures
    jobs = []
    with concurrent.futures.ThreadPoolExecutor(max_workers=16) as ex:
        for i in range(nproc):
            jobs.append(ex.submit(run_tool, acc, run_, api, ["api", str(run_.seed * 100 + i), str(n_api // nproc)]))
            jobs.append(ex.submit(run_tool, acc, run_, core, ["core", str(run_.seed * 100 + i), str(n_core // nproc),
                                                               str(n_salt // nproc)]))
        jobs.append(ex.submit(run_tool, acc, run_, api_nd, ["api", str(run_.seed * 100 + 77), str(2000 if tier == "quick" else 100000)]))
        jobs.append(ex.submit(run_tool, acc, run_, api_uc, ["api", str(run_.seed * 100 + 78), str(2000 if tier == "quick" else 100000)]))
        results = [j.result() for j in jobs]
    salted = []
    tot = {}
    for s, st in results:
        salted += s
        for k, v in st.items():
            tot[k] = tot.get(k, 0) + v
    acc.count("evaluations", tot.get("comparisons", 0) + len(salted))
    run_.merge(acc)
    for a in pool.pmap(check_salted, pool.chunks(salted, max(1, len(salted) // 64 + 1))):
        run_.merge(a)
    for a, st in pool.pmap(selection_api, [(n_, h_, ["api", str(run_.seed * 100 + 90 + i), str(1500 if tier == "quick" else 60000)])
                                           for i, (n_, h_) in enumerate(SELECTIONS)], nproc=3):
        run_.merge(a)
    a = run_.acc
    cov = {
        "rule": "api: setkey/encrypt and setkey_r/encrypt_r bound with dlvsym from the freshly built shared library "
                "(ASan+UBSan) against nettle DES: all weight-1/weight-63 keys x blocks (16384 pairs) plus random "
                "pairs, junk in the upper 7 bits of every input byte, decrypt(encrypt), parity flips, crypt/"
                "crypt_r/crypt_gensalt between setkey and encrypt; core: des_crypt_block with salt 0/count 1 against "
                "nettle, salted/iterated cases against the Python bit-level model; distinct = workload classes",
        "api_and_core_comparisons_vs_nettle": tot.get("comparisons", 0),
        "weight_grid_pairs": tot.get("grid_pairs", 0),
        "comparisons_on_other_hash_selections": int(a.n.get("selection_api_comparisons", 0)),
        "other_hash_selections": [n_ + "=" + ",".join(h_) for n_, h_ in SELECTIONS],
        "object_offsets_used": tot.get("object_offsets", 0),
        "salted_iterated_cases_vs_model": int(a.n.get("salted_checked", 0)),
        "samples": [dict(zip(("key", "salt", "count", "block", "out"), s)) for s in salted[:3]] or ["(none)"],
        "flavours": ["so-asan (compat symbols via dlvsym)", "asan static objects (internal symbols)"],
    }
    return run_.finish(cov, assumptions=["nettle's DES (and the bit-level model validated against it) is the reference"],
                       min_conclusive=20000)
