"""C01 - authentication round trip (DESIGN §4 C01).

Metamorphic oracle on the asan flavour: H = crypt_rn(P,S); crypt_rn(P,H) == H;
crypt_rn(P,H') == H for H' = H with its digest part replaced by same-length
noise from the method's digest alphabet."""
from .. import common, gen, pool, rt
from ..pool import Death, Timeout

PID = "C01"
FL = "asan"
BUDGET = 40000      # cost units (~ native microseconds) per hash


def make_cases(seed, tier):
    per = 420 if tier == "quick" else 5200
    cases = []
    skipped = 0
    for m in gen.METHODS:
        for i in range(per):
            rng = rt.rng_for(seed, PID, m, i)
            setting, form = gen.gen_valid(rng, m)
            phrase = gen.gen_phrase(rng)
            if gen.cost_units(setting, len(phrase)) > BUDGET:
                skipped += 1
                continue
            cases.append((m, form, phrase, setting, rng.getrandbits(32)))
    return cases, skipped


def do_chunk(chunk):
    acc = common.Acc()
    w = rt.vw(FL)
    # errno as some earlier, unrelated call left it: a successful hash must not depend on it
    # (the first hash is made with a clean errno, the re-hashes with a stale one)
    pre = (0, 2, 34)[len(chunk[0][3]) % 3]
    setup = [rt.obj_line(0, align=3), rt.obj_line(1, align=0, fill="f")]
    setup2 = setup + ["preerrno %d" % pre]
    lines = [rt.crypt_line("crypt_rn", 0, p, s) for (_, _, p, s, _) in chunk]
    r1 = rt.run_resilient(w, setup, lines)
    # phase 2
    lines2 = []
    idx = []
    for ci, (c, r) in enumerate(zip(chunk, r1)):
        m, form, p, s, nz = c
        acc.count("evaluations")
        if isinstance(r, Death):
            acc.inconc("phase-1 worker death (%s in %s) on %s setting %r" % (
                r.kind(), r.frame(), m, s[:60]))
            acc.count("phase1_deaths")
            continue
        if isinstance(r, Timeout) or r is None:
            acc.inconc("timeout on %s %r" % (m, s[:60]))
            continue
        h = rt.hash_of(r)
        if h is None:
            acc.count("rejected")
            acc.count("rejected/" + m)
            continue
        acc.count("accepted")
        sp = gen.split_hash(gen.result_method(s, len(p)) or m, h)
        rng = rt.rng_for(nz, "noise")
        variants = [("same", h)]
        if sp:
            pre, dig, alpha = sp
            for k in range(2):
                nd = bytes(rng.choice(alpha) for _ in dig)
                variants.append(("noise", pre + nd))
        for vi, (vk, hs) in enumerate(variants):
            slot = (vi + ci) & 1
            lines2.append(rt.crypt_line("crypt_rn", slot, p, hs))
            idx.append((ci, vk, h, hs))
    r2 = rt.run_resilient(w, setup2, lines2) if lines2 else []
    w.run(["preerrno 0"], 30)
    # phase 3: the calling pattern crypt.h suggests - the phrase lives in data->input, the hash just produced is
    # passed back as the setting, and nothing re-fills the object between the two calls
    lines3, idx3 = [], []
    for ci, (c, r) in enumerate(zip(chunk, r1)):
        m, form, p, s, nz = c
        h = rt.hash_of(r) if isinstance(r, dict) else None
        if h is None or len(p) >= 512 or len(s) >= 384 or ci % 3:
            continue
        e = ("crypt_rn", "crypt_r")[ci // 3 % 2]
        lines3.append(rt.crypt_line(e, 0, p, s, "=", "i"))
        idx3.append(None)
        lines3.append(rt.crypt_line(e, 0, p, h, "=", "k"))
        idx3.append((ci, h))
    r3 = rt.run_resilient(w, setup, lines3) if lines3 else []
    for k, (ix, r) in enumerate(zip(idx3, r3)):
        if ix is None or not isinstance(r, dict) or not isinstance(r3[k - 1], dict):
            continue
        ci, h = ix
        m, form, p, s, nz = chunk[ci]
        acc.count("in_object_round_trips")
        h1, h2 = rt.hash_of(r3[k - 1]), rt.hash_of(r)
        if h1 != h or h2 != h:
            acc.violation("%s/rehash-phrase-kept-in-object/%s" % (PID, m),
                          "method=%s phrase=%s kept in data->input: first call (setting %r) gives %r, the second call on the "
                          "same object with that hash as the setting gives %r; with separate buffers H=%r" % (
                              m, p.hex()[:80], s, h1, h2, h),
                          rt.replay_obj(FL, setup + lines3[k - 1:k + 1], "second result must equal first"))
        else:
            acc.cls((m, "in-object"))
    for (ci, vk, h, hs), r, ln in zip(idx, r2, lines2):
        m, form, p, s, nz = chunk[ci]
        first = rt.crypt_line("crypt_rn", 0, p, s)
        if isinstance(r, Death):
            rt.death_violation(acc, PID, r, FL, ln, "rehash-" + vk + "/" + m, setup + [first])
            continue
        if isinstance(r, Timeout) or r is None:
            acc.inconc("timeout on rehash %s" % m)
            continue
        h2 = rt.hash_of(r)
        acc.count("rehashes")
        acc.count("rh/" + m)
        if h2 != h:
            acc.violation("%s/%s/%s" % (PID, "rehash-" + vk, m),
                          "method=%s form=%s phrase=%s setting=%r H=%r rehash-with=%r got=%r" % (
                              m, form, p.hex()[:80], s, h, hs, h2),
                          rt.replay_obj(FL, setup + [first, ln], "second result must equal first"))
        else:
            acc.cls((m, form, vk))
            if vk == "noise":
                acc.sample({"method": m, "setting": s.decode("latin1"), "phrase_len": len(p),
                            "hash": h.decode("latin1"), "noise_setting": hs.decode("latin1")})
    return acc


def run(tier):
    run_ = common.Run(PID, tier, "exploration")
    rt.prepare([FL])
    cases, skipped = make_cases(run_.seed, tier)
    for acc in pool.pmap(do_chunk, pool.chunks(cases, 60)):
        run_.merge(acc)
    a = run_.acc
    per_method = {m: int(a.n.get("rejected/" + m, 0)) for m in gen.METHODS}
    cov = {
        "rule": "one case = (method, grammar-generated accepted-form setting, phrase 0..511 bytes 8-bit); "
                "for every success three re-hashes (H itself, two digest-noise variants) alternating "
                "between the same and a different data object; distinct = (method, setting-form class, "
                "variant) cells in which a re-hash was compared",
        "triples_accepted": int(a.n.get("accepted", 0)),
        "rehash_comparisons": int(a.n.get("rehashes", 0)),
        "round_trips_with_the_phrase_kept_in_the_object": int(a.n.get("in_object_round_trips", 0)),
        "rejected_by_library": int(a.n.get("rejected", 0)),
        "rejected_per_method": per_method,
        "skipped_expensive": skipped,
        "flavour": FL,
    }
    return run_.finish(cov, assumptions=[
        "cost parameters above the budget are never hashed",
        "sanitizer death in the first call is counted inconclusive here (C04 judges it)"],
        min_conclusive=1000, conclusive=int(a.n.get("rehashes", 0)),
        required={m: a.n.get("rh/" + m, 0) for m in gen.METHODS})
