"""C15 - allocation and mapping failures are reported cleanly (DESIGN §4 C15).

Fault enumeration with the link-time wrappers: for every API call of a corpus
the library's allocator/mapping requests are counted, then the call is re-run
once per request with that request failing (all single faults) and once per
pair (all double faults), each followed by an un-faulted call on the same
objects."""
import os
import re

from .. import common, facts, gen, pool, rt
from ..pool import Death, Timeout

PID = "C15"
FL = "asan"
FL0 = FL
CD = rt.CD_SIZE


def y_setting(tag, nlog2, r, salt=b"saltSALTsaltSALT"):
    return tag + b"j" + gen.yes_enc_uint(nlog2, 1) + gen.yes_enc_uint(r, 1) + b"$" + gen.yes_encode64(salt)


def s7_setting(nlog2, r, p=1):
    return b"$7$" + gen.A64[nlog2:nlog2 + 1] + gen.enc64_le(r, 5) + gen.enc64_le(p, 5) + b"saltsalt"


def corpus(tier):
    """(name, setup lines, call line, is_gensalt)"""
    c = []
    cheap = {
        "yescrypt": y_setting(b"$y$", 6, 1), "gost_yescrypt": y_setting(b"$gy$", 6, 1),
        "scrypt": s7_setting(4, 1), "bcrypt": b"$2b$04$abcdefghijklmnopqrstuu", "bcrypt_y": b"$2y$04$abcdefghijklmnopqrstuu",
        "bcrypt_a": b"$2a$04$abcdefghijklmnopqrstuu", "bcrypt_x": b"$2x$04$abcdefghijklmnopqrstuu",
        "sha512crypt": b"$6$rounds=1000$saltsalt", "sha256crypt": b"$5$rounds=1000$saltsalt",
        "sha1crypt": b"$sha1$20$saltsalt", "sunmd5": b"$md5,rounds=5$saltsalt$", "md5crypt": b"$1$saltsalt",
        "nt": b"$3$", "bsdicrypt": b"_/...salt", "bigcrypt": b"ab" + b"." * 12, "descrypt": b"ab",
    }
    ph = b"correct horse battery"
    for m, s in cheap.items():
        c.append(("ra-null/" + m, ["raobj 2 -1 0"], rt.crypt_line("crypt_ra", 2, ph, s)))
        c.append(("ra-small/" + m, ["raobj 2 500 500"], rt.crypt_line("crypt_ra", 2, ph, s)))
        c.append(("ra-fail/" + m, ["raobj 2 -1 0"], rt.crypt_line("crypt_ra", 2, ph, s[:3] + b"\x7f")))
        # other length classes of the phrase (a method may ask for memory only beyond its block size)
        c.append(("rn-long/" + m, [rt.obj_line(0, fill="r", seed=8)], rt.crypt_line("crypt_rn", 0, (ph + b" ") * 9 + b"tail", s)))
        c.append(("ra-small-max/" + m, ["raobj 2 40 40"], rt.crypt_line("crypt_ra", 2, bytes(range(1, 256)) * 2 + b"x", s)))
    big = [("y-small", y_setting(b"$y$", 8, 8)),            # 256 KiB
           ("y-32M", y_setting(b"$y$", 15, 8)),             # 32 MiB: MAP_HUGETLB attempt then fallback
           ("y-prehash", y_setting(b"$y$", 12, 32)),        # N/p >= 0x100 and N/p*r >= 0x20000: two passes
           ("gy-small", y_setting(b"$gy$", 8, 8)),
           ("gy-32M", y_setting(b"$gy$", 15, 8)),
           ("7-small", s7_setting(8, 8)),
           ("7-32M", s7_setting(15, 8)),
           ("7-p2", s7_setting(6, 2, 2))]
    # the static-state entry points as the FIRST call of a process (whatever they set up lazily is requested then)
    for m, s in cheap.items():
        c.append(("static-first/" + m, [], rt.crypt_line("crypt", 0, ph, s), True))
    for m in ("yescrypt", "sha512crypt", "descrypt", None):
        c.append(("gensalt_st-first/" + (m or "NULL"), [],
                  rt.gensalt_line("st", gen.TAG[m] if m else None, 0, facts.rbytes_pattern("rnd", 32), 32, 192), True))
    c.append(("static-first/y-small", [], rt.crypt_line("crypt", 0, ph, y_setting(b"$y$", 8, 8)), True))
    # requests that fail anyway: the token returned under a fault must still differ from the setting
    for t in (b"*0", b"*1", b"*0abc"):
        c.append(("static-first/token-" + t.decode(), [], rt.crypt_line("crypt", 0, ph, t), True))
        c.append(("ra-null/token-" + t.decode(), ["raobj 2 -1 0"], rt.crypt_line("crypt_ra", 2, ph, t)))
    if tier == "thorough":
        big += [("y-worm", y_setting(b"$y$", 8, 8)[:3] + b"/" + y_setting(b"$y$", 8, 8)[4:]),      # flavour '/'
                ("y-classic", y_setting(b"$y$", 8, 8)[:3] + b"." + y_setting(b"$y$", 8, 8)[4:]),   # flavour '.'
                ("y-p2", b"$y$j75.0$saltSALTsaltSALT"),                                          # p = 2
                ("y-t1", b"$y$j75/.$saltSALTsaltSALT"),                                          # t = 1
                ("gy-prehash", y_setting(b"$gy$", 12, 32)),
                ("7-64M", s7_setting(14, 32)),
                ("7-p3-r1", s7_setting(8, 1, 3))]
    # requests that fail inside the KDF, after parsing (a region may already be mapped then)
    big += [("y-rom", b"$y$j7557$LdJMENpBABJJ3hIHjB1Bi."), ("gy-rom", b"$gy$j7557$LdJMENpBABJJ3hIHjB1Bi."),
            ("y-upgrade", b"$y$j752.$LdJMENpBABJJ3hIHjB1Bi."), ("y-N2", b"$y$j.T$abcdefgh"), ("7-N2", b"$7$/..../....abcdefgh")]
    # a host with reserved huge pages: the MAP_HUGETLB request succeeds and must be released with its rounded length
    for name, s in (("y-32M-hugepages", y_setting(b"$y$", 15, 8)), ("7-32M-hugepages", s7_setting(15, 8)),
                    ("gy-32M-hugepages", y_setting(b"$gy$", 15, 8))):
        c.append(("rn/" + name, [rt.obj_line(0, fill="r", seed=3), "hugeok 1"], rt.crypt_line("crypt_rn", 0, ph, s)))
    for name, s in big:
        c.append(("rn/" + name, [rt.obj_line(0, fill="r", seed=3)], rt.crypt_line("crypt_rn", 0, ph, s)))
        c.append(("ra/" + name, ["raobj 2 -1 0"], rt.crypt_line("crypt_ra", 2, ph, s)))
        if tier == "thorough":
            c.append(("r/" + name, [rt.obj_line(0, fill="f")], rt.crypt_line("crypt_r", 0, ph, s)))
            c.append(("static/" + name, [], rt.crypt_line("crypt", 0, ph, s)))
    for m in facts.GENSALT_METHODS + ["bcrypt_x", None]:
        pre = gen.TAG[m] if m else None
        c.append(("gensalt_ra/" + (m or "NULL"), [], rt.gensalt_line("ra", pre, 0, facts.rbytes_pattern("rnd", 32), 32, 192)))
        c.append(("gensalt_ra-os/" + (m or "NULL"), [], rt.gensalt_line("ra", pre, 0, None, 0, 192)))
    c.append(("gensalt_rn-os/NULL", [], rt.gensalt_line("rn", None, 0, None, 0, 192)))
    c.append(("gensalt_ra-bad/yescrypt", [], rt.gensalt_line("ra", b"$y$", 99, facts.rbytes_pattern("rnd", 32), 32, 192)))
    return c


REQ = re.compile(r"^([ARMU])(\d+)(h?)([a-zA-Z?-]*)(!?)$")


def parse_ev(ev):
    """-> list of (kind, size, huge, flags, faulted) for allocator/mapping requests"""
    out = []
    if ev in (".", "", None):
        return out
    for t in ev.split(","):
        m = REQ.match(t)
        if m:
            out.append((m.group(1), int(m.group(2)), bool(m.group(3)), m.group(4), bool(m.group(5))))
    return out


TOKENS = [None]
TIER = ["quick"]


def tokens_enabled():
    if TOKENS[0] is None:
        with open(os.path.join(rt.TREE.gendir(), "config.h")) as f:
            m = re.search(r"#define ENABLE_FAILURE_TOKENS (\d)", f.read())
        TOKENS[0] = bool(m and m.group(1) == "1")
    return TOKENS[0]


class FreshWorker:
    """a new worker process for every run() - for calls whose behaviour depends
    on being the first of the process"""

    def __init__(self, path):
        self.path = path

    def run(self, lines, timeout):
        w = pool.Worker(self.path)
        try:
            return w.run(lines, timeout)
        finally:
            w.stop()


def do_case(item):
    name, setup0, call = item[:3]
    fresh = len(item) > 3 and item[3]
    FL = item[4] if len(item) > 4 else FL0
    acc = common.Acc()
    w = FreshWorker(rt.PATHS["vw-" + FL]) if fresh else rt.vw(FL)
    is_gs = call.startswith("gensalt")
    base_setup = ["ledger 1", "mapcap %d" % (128 << 20), "hugeok 0"]
    tail = ["rafree 2"] if "crypt_ra" in call else []
    # 1. un-faulted trace
    res, end = w.run(base_setup + setup0 + [call] + tail, 300)
    if end is not None:
        if isinstance(end, Death):
            rt.death_violation(acc, PID, end, FL, call, "unfaulted/" + name, base_setup + setup0)
        else:
            acc.inconc("timeout unfaulted " + name)
        return acc
    r0 = res[len(base_setup) + len(setup0)]
    # the un-faulted call itself must not leave mappings or heap blocks behind either
    if int(r0.get("maps", "0")) > 0:
        acc.violation("%s/mapping-leak/%s" % (PID, name.split("/")[0]),
                      "%s: %s library mappings still live after the un-faulted call (ev=%s)" % (name, r0.get("maps"), r0.get("ev")),
                      rt.replay_obj(FL, base_setup + setup0 + [call]))
    reqs = parse_ev(r0.get("ev", "."))
    n = len(reqs)
    acc.sets["traces"].add((name.split("/")[0], "".join(k + ("h" if h else "") + ("e" if "e" in f or "X" in f else "") for k, _, h, f, _ in reqs)))
    h0 = (r0.get("r"), r0.get("o"))
    ok0 = r0.get("r") in ("O", "A", "S") and (r0.get("o") or "2a")[:2] != "2a"
    acc.count("corpus_calls")
    acc.count("requests_total", n)
    scen = [(k,) for k in range(1, n + 1)] + [(a, b) for a in range(1, n + 2) for b in range(a + 1, n + 3)]
    if TIER[0] == "thorough" and n >= 2:
        import random
        tr = random.Random("%s/%s" % (name, n))
        allt = [(a, b, c) for a in range(1, n + 2) for b in range(a + 1, n + 3) for c in range(b + 1, n + 4)]
        scen += tr.sample(allt, min(len(allt), 60))
    # munmap(2) can also fail with ENOMEM (unmapping would split a mapping past the limit): every position that was
    # an munmap in the un-faulted trace once more with that error
    scen = [(f, rt.EINVAL) for f in scen] + [((i + 1,), rt.ENOMEM) for i, q in enumerate(reqs) if q[0] == "U"]
    for faults, mu_errno in scen:
        fl = "fault " + ",".join(str(x) for x in faults)
        lines = base_setup + setup0 + ["munmaperrno %d" % mu_errno, fl, call, call] + tail
        res, end = w.run(lines, 300)
        acc.count("evaluations")
        acc.count("single_faults" if len(faults) == 1 else ("double_faults" if len(faults) == 2 else "triple_faults"))
        where = "%s faults=%s%s" % (name, faults, " (munmap fails with ENOMEM)" if mu_errno != rt.EINVAL else "")
        if isinstance(end, Death):
            rt.death_violation(acc, PID, end, FL, lines[end.line], "faulted/" + name.split("/")[0], lines[:end.line])
            continue
        if end is not None:
            acc.inconc("timeout " + where)
            continue
        off = len(base_setup) + len(setup0) + 2
        r1, r2 = res[off], res[off + 1]
        if mu_errno != rt.EINVAL:
            acc.count("munmap_enomem_faults")
        ev = parse_ev(r1.get("ev", "."))
        failed = [(k, sz, h) for (k, sz, h, f, bad) in ev if bad]
        acc.cls((name.split("/")[0], len(faults), tuple(k for k, _, _ in failed)))

        def viol(kind, detail):
            acc.violation("%s/%s/%s" % (PID, kind, name.split("/")[0]),
                          "%s: %s :: ev=%s result=%s errno=%s" % (where, detail, r1.get("ev"), r1.get("r"), r1.get("e")),
                          rt.replay_obj(FL, lines))
        if not failed:
            # the schedule pointed past the requests this run made: nothing injected
            acc.count("no_fault_reached")
            if (r1.get("r"), r1.get("o")) != h0 and not is_gs_os(call):
                viol("nondeterministic", "no fault was injected but the result differs from the un-faulted run")
            continue
        acc.count("faults_injected", len(failed))
        # which failed requests were optional by design?  A MAP_HUGETLB attempt
        # answered by a plain mmap of the same length that succeeded.
        needed = []
        for i, (k, sz, h, f, bad) in enumerate(ev):
            if not bad:
                continue
            if k == "M" and h:
                later = [e for e in ev[i + 1:] if e[0] == "M" and not e[2] and not e[4] and "e" not in e[3] and "X" not in e[3]]
                if later:
                    continue
            needed.append((k, sz))
        success = r1.get("r") in ("O", "A", "S") and (r1.get("o") or "2a")[:2] != "2a"
        if needed and success:
            viol("hash-despite-failure", "a needed request failed (%s) but the call returned a result" % needed)
        if not needed and ok0 and not success and not is_gs:
            # optional request failed, retry succeeded: allowed to fail? no - the
            # fallback exists precisely so that the call completes
            pass
        if success and not is_gs_os(call) and (r1.get("r"), r1.get("o")) != h0:
            viol("wrong-hash-under-fault", "result differs from the un-faulted result")
        if not success:
            e = rt.errno_of(r1)
            if e not in (rt.ENOMEM, rt.EINVAL, rt.ERANGE):
                viol("errno", "errno %d after a failed request" % e)
            if r1.get("r") not in ("N",) and not (call.split()[1] in ("crypt", "crypt_r")):
                viol("nonnull-on-failure", "entry point must return NULL")
            if r1.get("r") == "N" and call.split()[1] in ("crypt", "crypt_r") and tokens_enabled():
                viol("null-instead-of-token", "this build returns failure tokens from crypt/crypt_r, the faulted call "
                                              "returned NULL")
            o = r1.get("o")
            if o not in (None, "-", "2a30", "2a31", ".") and not is_gs:
                viol("output-not-token", "output field holds %s" % o)
            if not is_gs and o in ("2a30", "2a31") and call.split()[4].startswith(o):
                viol("token-equals-setting", "the failure token %s is a leading part of the setting: "
                                             "strcmp(crypt(p, stored), stored) could succeed" % o)
        if "crypt_ra" in call and not success and any(k == "R" for k, _, _ in failed):
            had_block = any(l.startswith("raobj") and int(l.split()[2]) >= 0 for l in setup0)
            if had_block and r1.get("d") != "1":
                viol("caller-block-lost", "realloc failed and *data is no longer the caller's block (d=%s): the old block "
                                          "can no longer be freed by the caller" % r1.get("d"))
            if had_block and r1.get("blk") not in (None, "-1") and int(r1.get("sz", "0")) > int(r1.get("blk", "0")):
                viol("size-exceeds-block", "after the failed realloc *size=%s but the block has %s bytes" % (r1.get("sz"), r1.get("blk")))
        if r1.get("iz") == "0" or r1.get("rz") == "0":
            viol("scratch-not-erased", "internal/reserved not zero after the faulted call")
        if int(r1.get("lerr", "0")) or int(r2.get("lerr", "0")):
            viol("ledger-error", "double free / unknown pointer")
        # leaks: live library mappings must be none; heap blocks only *data
        if int(r1.get("maps", "0")) > 0:
            viol("mapping-leak", "%s library mappings still live after the call" % r1.get("maps"))
        # crypt_ra's block belongs to the caller; the static entry points may keep one state object of their own
        # (kept and reused is not lost) - what counts there is growth from call to call
        static_entry = call.split()[1] in ("crypt", "st") or (is_gs and call.split()[1] == "st")
        lim = 1 if ("crypt_ra" in call or static_entry) else 0
        if int(r1.get("heap", "0")) > lim:
            viol("heap-leak", "%s library heap blocks live after the call" % r1.get("heap"))
        if static_entry and int(r2.get("heap", "0")) > max(int(r1.get("heap", "0")), 1):
            viol("heap-leak", "library heap blocks grow from call to call: %s then %s" % (r1.get("heap"), r2.get("heap")))
        # the next, un-faulted call on the same objects behaves normally
        if not is_gs_os(call) and (r2.get("r"), r2.get("o")) != h0:
            viol("next-call-abnormal", "un-faulted call after the fault gives %s/%s, expected %s/%s" % (
                r2.get("r"), (r2.get("o") or "")[:40], h0[0], (h0[1] or "")[:40]))
        if tail:
            rf = res[-1]
            if int(rf.get("heap", "0")) or int(rf.get("maps", "0")):
                viol("leak-after-free", "heap=%s maps=%s after the caller's free" % (rf.get("heap"), rf.get("maps")))
    acc.sample({"call": name, "request_trace": r0.get("ev"), "scenarios": len(scen)}, cap=4)
    return acc


def is_gs_os(call):
    """gensalt with OS entropy: result legitimately differs between runs"""
    return call.startswith("gensalt") and call.split()[4] == "-"


def run(tier):
    run_ = common.Run(PID, tier, "fault_enumeration")
    rt.prepare([FL, "ndebug"])
    TIER[0] = tier
    items = corpus(tier)
    # a distribution building with -DNDEBUG: what an assert() wrapped is gone there.  The calls that request
    # memory (mappings, crypt_ra blocks, gensalt_ra strings) once more on that build
    items += [(it[0] + "@ndebug", it[1], it[2], len(it) > 3 and it[3], "ndebug") for it in items
              if it[0].split("/")[0] in ("rn", "ra", "ra-null", "ra-small", "gensalt_ra") and
              (tier == "thorough" or it[0].split("/")[1] in ("y-small", "y-32M", "gy-small", "7-small", "7-p2", "y-rom",
                                                              "yescrypt", "scrypt", "sha512crypt", "y-32M-hugepages"))]
    for acc in pool.pmap(do_case, items):
        run_.merge(acc)
    a = run_.acc
    cov = {
        "rule": "corpus call x every single failing request position k and every pair (k1,k2) of its "
                "malloc/realloc/mmap/munmap request sequence (positions past the end are counted as 'no fault "
                "reached'); each faulted call is followed by the same call un-faulted on the same objects and by the "
                "caller's free; distinct = (call family, number of faults, kinds of the failed requests)",
        "exhaustive": True,
        "corpus_calls": int(a.n.get("corpus_calls", 0)),
        "requests_in_unfaulted_traces": int(a.n.get("requests_total", 0)),
        "single_fault_runs": int(a.n.get("single_faults", 0)),
        "double_fault_runs": int(a.n.get("double_faults", 0)),
        "triple_fault_runs_sampled": int(a.n.get("triple_faults", 0)),
        "faults_actually_injected": int(a.n.get("faults_injected", 0)),
        "munmap_failing_with_ENOMEM_runs": int(a.n.get("munmap_enomem_faults", 0)),
        "distinct_request_traces": sorted("%s:%s" % t for t in a.sets.get("traces", ())),
        "flavour": FL + " and -O2 -DNDEBUG, each with the request ledger",
    }
    return run_.finish(cov, assumptions=[
        "faults inside libc (snprintf...) and kernel OOM kills are out of scope",
        "the MAP_HUGETLB attempt is optional by design: when it fails and the plain mmap retry succeeds the call "
        "may succeed and must then return the un-faulted hash",
        "exhaustive refers to single and double faults over the stated corpus"],
        min_conclusive=150, conclusive=int(a.n.get("faults_injected", 0)))
