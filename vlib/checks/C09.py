"""C09 - working memory and pass-phrase copies are erased (DESIGN §4 C09).

Monitors: (1) byte scan of the data object after every call (internal /
reserved / initialized zero when validation passed, untouched otherwise; no
pass-phrase encoding left), (2) poisoned private stack scanned after the call
(-O0, -z now), (3) ledger: realloc sees an erased block, munmap'd regions hold
no pass-phrase, (4) the entropy buffer crypt_gensalt drew into is zero after
the call; digest/HMAC/KDF primitives leave zero contexts and clean stacks
(harness/vprim.c)."""
import os
import json
import subprocess

from .. import common, facts, gen, pool, rt
from ..pool import Death, Timeout

PID = "C09"
BUDGET = 12000
CD = rt.CD_SIZE
LENS = [8, 9, 16, 63, 64, 65, 128, 255, 511]


def rand_phrase(rng, n):
    return bytes(rng.randint(1, 255) for _ in range(n))


def make_requests(seed, tier, tag):
    """(kind, method, phrase, setting): kind = ok | method-refused | validation"""
    rng = rt.rng_for(seed, PID, tag)
    out = []
    per = 6 if tier == "quick" else 40
    for m in gen.METHODS:
        n = 0
        tries = 0
        while n < per and tries < 400:
            tries += 1
            s, form = gen.gen_valid(rng, m)
            L = rng.choice(LENS)
            seven = m in ("descrypt", "bigcrypt", "bsdicrypt")
            p = bytes(rng.randint(1, 127) for _ in range(L)) if seven and rng.random() < 0.5 else rand_phrase(rng, L)
            if gen.cost_units(s, L) > BUDGET:
                continue
            out.append(("ok", m, p, s))
            n += 1
            # a method-level refusal of a recognised tag (scratch may already be in use)
            if n % 2 == 0:
                s2, lab = gen.mutate(rng, s, long_ok=False)
                if gen.must_fail(p, s2) is None and gen.cost_units(s2, L) <= BUDGET:
                    out.append(("maybe", m, p, s2))
        # refusals by the method itself, after the generic validation passed
        for s3 in {"sha256crypt": [b"$5$rounds=999$saltsalt", b"$5$rounds=0$salt", b"$5$rounds=1000000000$salt"],
                   "sha512crypt": [b"$6$rounds=999$saltsalt", b"$6$rounds=05000$salt"],
                   "bcrypt": [b"$2b$03$abcdefghijklmnopqrstuu", b"$2b$05$abcdefghijklmnopqrst-u"],
                   "sunmd5": [b"$md5,rounds=0x5$salt$", b"$md5,round=5$salt$"], "sha1crypt": [b"$sha1$12$salt-salt$"],
                   "scrypt": [b"$7$/..../....abcdefgh"], "yescrypt": [b"$y$j.T$abcdefgh"]}.get(m, []):
            out.append(("maybe", m, rand_phrase(rng, rng.choice([20, 40, 100])), s3))
        # validation failures
        s, _ = gen.gen_valid(rng, m)
        out.append(("validation", m, rand_phrase(rng, 40), s[:1] + b"\x7f" + s[1:]))
        out.append(("validation", m, rand_phrase(rng, 40), s + b":"))
    out.append(("validation", "none", rand_phrase(rng, 30), b"$zz$unknown"))
    out.append(("validation", "none", rand_phrase(rng, 600), b"$6$saltsalt"))
    out.append(("validation", "none", None, b"$6$saltsalt"))
    out.append(("validation", "none", rand_phrase(rng, 30), None))
    rng.shuffle(out)
    return out


def judge_object(acc, flavour, req, r, ln, setup):
    kind, m, p, s = req

    def viol(what, detail):
        acc.violation("%s/%s/%s" % (PID, what, m),
                      "%s %s setting=%r phrase-len=%s: %s (%s)" % (
                          flavour, kind, s if s is None else s[:100], None if p is None else len(p), detail,
                          {k: r.get(k) for k in ("r", "e", "iz", "rz", "init", "iu", "ru", "nu", "ps", "sk", "mh", "ev")}),
                      rt.replay_obj(flavour, setup + [ln]))
    passed = gen.must_fail(p, s) not in gen.GENERIC_REJECTS
    if r.get("iz", "-") == "-":
        return
    if passed:
        acc.count("object_checks_passed_validation")
        if r["iz"] != "1":
            viol("internal-not-wiped", "data->internal is not all zero after the call")
        if r["rz"] != "1":
            viol("reserved-not-wiped", "data->reserved is not all zero after the call")
        if r["init"] != "0":
            viol("initialized-not-reset", "data->initialized = %s" % r["init"])
    else:
        acc.count("object_checks_failed_validation")
        if "iu" in r and (r["iu"] != "1" or r["ru"] != "1" or r["nu"] != "1"):
            viol("touched-on-validation-failure", "internal/reserved/initialized changed although validation failed")
    if r.get("ps", "0") not in ("0",):
        viol("phrase-in-object", "%s pass-phrase windows found in the data object" % r["ps"])


def xneedle_line(p):
    """HMAC replaces a key longer than its 64-byte block by the key's digest: for such a phrase the digest (and its
    inner/outer pad and byte-swapped forms) IS the pass-phrase as the algorithm uses it"""
    import hashlib
    if p is None or len(p) <= 64:
        return "xneedle -"
    return "xneedle " + (hashlib.sha256(p).digest() + hashlib.sha1(p).digest()).hex()


def do_object(args):
    """(1): asan flavour, shared objects, histories"""
    reqs, hseed = args[:2]
    exe = args[2] if len(args) > 2 else None
    acc = common.Acc()
    fl = "asan" if not exe else "own-bzero"
    w = pool.Worker(exe) if exe else rt.vw(fl)
    rng = rt.rng_for(hseed, "obj")
    setup = ["scan 1", rt.obj_line(0, align=rng.randrange(16), fill="r", seed=5),
             rt.obj_line(1, align=rng.randrange(16), fill="f"), "raobj 2 -1 0"]
    lines, meta = [], []
    for req in reqs:
        kind, m, p, s = req
        e = rng.choice(["crypt_rn", "crypt_r", "crypt_ra", "crypt_rn"])
        slot = 2 if e == "crypt_ra" else rng.randrange(2)
        if slot != 2:
            lines.append("fill %d %s %d" % (slot, rng.choice("rf"), rng.getrandbits(20)))
            meta.append(None)
        lines.append(xneedle_line(p))
        meta.append(None)
        lines.append(rt.crypt_line(e, slot, p, s, "=", rng.choice("ssi")))
        meta.append(req)
    rows = rt.run_resilient(w, setup, lines)
    for ln, req, r in zip(lines, meta, rows):
        if req is None:
            continue
        acc.count("evaluations")
        if isinstance(r, Death):
            acc.inconc("death %s/%s" % (r.kind(), r.frame()))
            continue
        if not isinstance(r, dict):
            acc.inconc("timeout")
            continue
        judge_object(acc, fl, req, r, ln, setup)
        acc.cls(("object" if not exe else "object-own-bzero", req[1], req[0], "ok" if rt.hash_of(r) else "fail"))
        acc.count(("obj/" if not exe else "objown/") + req[1])
    if exe:
        w.stop()
    return acc


def do_stack(args):
    """(2)+(3): o0 flavour on the private stack with the ledger"""
    reqs, hseed = args
    acc = common.Acc()
    fl = "o0"
    w = rt.vw(fl)
    rng = rt.rng_for(hseed, "stk")
    # the phrase at an odd address in half of the histories (malloc'ed strings are always aligned)
    setup = ["scan 1", "stack 1", "ledger 1", "palign %d" % rng.choice([0, 0, 1, 3, 5, 7]),
             rt.obj_line(0, align=rng.randrange(16), fill="r", seed=9)]
    lines, meta = [], []
    for req in reqs:
        kind, m, p, s = req
        e = rng.choice(["crypt_rn", "crypt_r", "crypt_ra", "crypt"])
        if e == "crypt_ra":
            # an undersized block that holds the pass-phrase: must be erased before realloc
            bs = rng.choice([64, 600, 4000, CD - 1])
            lines.append("raobj 2 %d %d" % (bs, bs))
            meta.append(None)
        lines.append(xneedle_line(p))
        meta.append(None)
        lines.append(rt.crypt_line(e, 2 if e == "crypt_ra" else 0, p, s, "=", "s"))
        meta.append(req)
        if e == "crypt" and kind == "ok" and rng.random() < 0.5:
            # crypt (crypt (pw, s1), s2): the string the static call returned, passed back by the same pointer
            m2 = rng.choice(["md5crypt", "sha256crypt", "descrypt", "bcrypt"])
            s2, _ = gen.gen_valid(rng, m2)
            if gen.cost_units(s2, 60) <= BUDGET:
                lines.append("xneedle -")
                meta.append(None)
                lines.append(rt.crypt_line("crypt", 0, b"-", s2, "=", "o"))
                meta.append(("alias", m2, None, s2))
    rows = rt.run_resilient(w, setup, lines)
    for ln, req, r in zip(lines, meta, rows):
        if req is None:
            continue
        if isinstance(r, dict) and r.get("ss", "0") not in ("0",):
            acc.violation("%s/phrase-in-static-storage/%s" % (PID, req[1]),
                          "%s pass-phrase windows found in the program's static storage (.data/.bss, where the library's "
                          "static objects live) after the call%s; setting=%r" % (
                              r["ss"], " (phrase = the string the previous crypt() returned)" if req[0] == "alias" else "",
                              (req[3] or b"")[:80]),
                          rt.replay_obj(fl, setup + lines[:lines.index(ln) + 1][-3:]))
        if isinstance(r, dict) and "ss" in r:
            acc.count("static_storage_scans")
        if req[0] == "alias":
            continue
        acc.count("evaluations")
        if isinstance(r, Death):
            acc.inconc("death %s/%s" % (r.kind(), r.frame()))
            continue
        if not isinstance(r, dict):
            acc.inconc("timeout")
            continue
        kind, m, p, s = req
        judge_object(acc, fl, req, r, ln, setup)
        acc.cls(("stack", m, kind, "ok" if rt.hash_of(r) else "fail"))
        if p is not None and len(p) >= 8:
            acc.count("stack_scans")
            acc.count("stk/" + m)
            acc.count("stack_bytes_scanned", int(r.get("su", "0")))
            if r.get("sk", "0") not in ("0", "-1"):
                acc.violation("%s/phrase-on-stack/%s" % (PID, m),
                              "%s pass-phrase windows left in the dead stack frames (-O0); setting=%r phrase-len=%d used=%s" % (
                                  r["sk"], s[:80] if s else s, len(p), r.get("su")),
                              rt.replay_obj(fl, setup + [ln]))
            if r.get("mh", "0") != "0":
                acc.violation("%s/phrase-in-unmapped-region/%s" % (PID, m),
                              "%s pass-phrase windows in a region handed to munmap; ev=%s" % (r["mh"], r.get("ev")),
                              rt.replay_obj(fl, setup + [ln]))
        ev = r.get("ev", ".")
        for tok in ev.split(","):
            if tok.startswith("R"):
                acc.count("realloc_seen")
                if tok.rstrip("!").endswith("n"):
                    acc.violation("%s/realloc-unerased/%s" % (PID, m),
                                  "crypt_ra handed a non-zero block to realloc: ev=%s" % ev,
                                  rt.replay_obj(fl, setup + lines[:lines.index(ln) + 1][-2:]))
            if tok.startswith("U"):
                acc.count("munmap_seen")
    return acc


def do_entropy(args):
    """(4a): the random bytes crypt_gensalt drew are erased"""
    seed, = args
    acc = common.Acc()
    fl = "o0"
    w = rt.vw(fl)
    setup = ["stack 1", "ent abcdef0123456789ff7f80"]
    lines, meta = [], []
    for m in facts.GENSALT_METHODS + [None]:
        for entry in ("rn", "ra", "st"):
            lines.append(rt.gensalt_line(entry, gen.TAG[m] if m else None, 0, None, 0, 192))
            meta.append((m or "NULL", entry, "ok"))
        # requests the method refuses after the bytes were drawn: a count outside
        # the range, an output buffer too small for the method's setting
        fm = m or "yescrypt"
        bad = next((c for c in (99, 3, 1) if not facts.count_accepted(fm, c)), None)
        if bad is not None:
            for entry in ("rn", "ra"):
                lines.append(rt.gensalt_line(entry, gen.TAG[m] if m else None, bad, None, 0, 192))
                meta.append((m or "NULL", entry, "bad-count"))
        for osz in (3, 5, 12):
            lines.append(rt.gensalt_line("rn", gen.TAG[m] if m else None, 0, None, 0, osz))
            meta.append((m or "NULL", "rn", "small-buffer"))
    rows = rt.run_resilient(w, setup, lines)
    for ln, (m, entry, kind), r in zip(lines, meta, rows):
        if isinstance(r, dict) and kind != "ok":
            acc.count("evaluations")
            acc.count("entropy_checks")
            acc.cls(("entropy", m, entry, kind))
            if r.get("gc") == "1" and r.get("er") not in ("0",):
                acc.violation("%s/entropy-not-erased/%s" % (PID, m),
                              "%s of %s drawn random bytes still readable after a REFUSED request (%s, result %s errno %s)" % (
                                  r.get("er"), r.get("gn"), kind, r["r"], r["e"]), rt.replay_obj(fl, setup + [ln]))
            continue
        acc.count("evaluations")
        if not isinstance(r, dict):
            acc.inconc("entropy death/timeout %s" % m)
            continue
        acc.cls(("entropy", m, entry))
        acc.count("entropy_checks")
        if r["r"] == "N" and m != "bcrypt_x":
            acc.violation("%s/entropy-call-failed/%s" % (PID, m), "%s -> %s" % (ln, r), rt.replay_obj(fl, setup + [ln]))
            continue
        if m == "nt":
            continue        # draws one byte; checked like the rest below when drawn
        if r.get("gc") != "1" and m not in ("bcrypt_x",):
            acc.violation("%s/entropy-not-drawn/%s" % (PID, m), "arc4random_buf calls=%s: %s" % (r.get("gc"), r),
                          rt.replay_obj(fl, setup + [ln]))
            continue
        if r.get("er") not in ("0",) and m != "bcrypt_x":
            acc.violation("%s/entropy-not-erased/%s" % (PID, m),
                          "%s of %s drawn random bytes still readable in the dead frame after return" % (
                              r.get("er"), r.get("gn")), rt.replay_obj(fl, setup + [ln]))
    return acc


def run_prim(run_, tier):
    """(4b): primitives - contexts zero after Final, clean stack per operation"""
    exe = rt.TREE.program("o0", "vprim.c", name="vprim-o0", wrap=False, libs="-lgcrypt")
    n = 40 if tier == "quick" else 400
    p = subprocess.run([exe, "wipe", str(run_.seed), str(n)], stdout=subprocess.PIPE, stderr=subprocess.PIPE,
                       text=True, timeout=1200)
    acc = common.Acc()
    if p.returncode not in (0, 1):
        run_.harness_error("vprim wipe exit %s: %s" % (p.returncode, p.stderr[-400:]))
        return
    for ln in p.stdout.splitlines():
        if ln.startswith("VIOL "):
            _, what, detail = ln.split(" ", 2)
            acc.violation("%s/primitive/%s" % (PID, what), detail,
                          {"cmd": "%s wipe %d %d" % (exe, run_.seed, n)})
        elif ln.startswith("STAT "):
            d = json.loads(ln[5:])
            for k, v in d.items():
                acc.count("prim_" + k, v)
            acc.count("evaluations", d.get("ops", 0))
        elif ln.startswith("RESID "):
            acc.sets["prim_residue"].add(ln[6:].strip())
        elif ln.startswith("CLS "):
            acc.cls(("prim",) + tuple(ln.split()[1:]))
    run_.merge(acc)


def run(tier):
    run_ = common.Run(PID, tier, "exploration")
    rt.prepare(["asan", "o0"])
    nh = 16 if tier == "quick" else 64
    work_a = [(make_requests(run_.seed, tier, "a%d" % i), run_.seed * 1000 + i) for i in range(nh)]
    work_b = [(make_requests(run_.seed, tier, "b%d" % i), run_.seed * 1000 + i) for i in range(nh)]
    for acc in pool.pmap(do_object, work_a):
        run_.merge(acc)
    for acc in pool.pmap(do_stack, work_b):
        run_.merge(acc)
    for acc in pool.pmap(do_entropy, [(run_.seed,)]):
        run_.merge(acc)
    # the same object monitor on a build that has to use the library's own explicit_bzero (util-xbzero.c):
    # configure picks it when the C library offers none of memset_explicit/memset_s/explicit_bzero/explicit_memset
    from . import C19
    import shutil
    none = {"HAVE_EXPLICIT_BZERO": None, "HAVE_MEMSET_S": None, "HAVE_EXPLICIT_MEMSET": None, "HAVE_MEMSET_EXPLICIT": None}
    name, en, exe, err, _ = C19.build_config(("c09-own-bzero", list(gen.METHODS), none, "-O2 -g0"))
    if exe is None:
        run_.acc.inconc("build with the library's own explicit_bzero failed: " + err[-300:])
    else:
        try:
            work_c = [(make_requests(run_.seed, tier, "c%d" % i), run_.seed * 1000 + 500 + i, exe) for i in range(nh)]
            for acc in pool.pmap(do_object, work_c):
                run_.merge(acc)
        finally:
            shutil.rmtree(os.path.dirname(exe), ignore_errors=True)
    # ... and on builds for a C library that offers one of the other secure-erase primitives instead
    for bname, ov in (("memset_explicit", {"HAVE_MEMSET_EXPLICIT": 1}),
                      ("memset_s", {"HAVE_MEMSET_EXPLICIT": None, "HAVE_MEMSET_S": 1}),
                      ("explicit_memset", {"HAVE_MEMSET_EXPLICIT": None, "HAVE_MEMSET_S": None, "HAVE_EXPLICIT_BZERO": None,
                                           "HAVE_EXPLICIT_MEMSET": 1})):
        name, en, exe, err, _ = C19.build_config(("c09-" + bname, list(gen.METHODS), ov, "-O2 -g0"))
        if exe is None:
            run_.acc.inconc("build for a C library with %s failed: %s" % (bname, err[-300:]))
            continue
        try:
            nh2 = max(4, nh // 4)
            work_d = [(make_requests(run_.seed, tier, "d%s%d" % (bname, i)), run_.seed * 1000 + 700 + i, exe) for i in range(nh2)]
            for acc in pool.pmap(do_object, work_d):
                for v in acc.viol:
                    v["key"] = v["key"] + "@" + bname
                    v["detail"] = "[C library with %s] %s" % (bname, v["detail"])
                run_.merge(acc)
            run_.acc.count("erase_primitive_builds")
        finally:
            shutil.rmtree(os.path.dirname(exe), ignore_errors=True)
    run_prim(run_, tier)
    a = run_.acc
    cov = {
        "rule": "requests = all 16 methods x random 8-bit phrases of 8..511 bytes x {accepted, method-refused mutation, "
                "validation failure}, executed as shuffled histories on shared objects; every call is followed by the "
                "object monitor (asan build), and in the -O0/-z now build by a scan of the poisoned private stack and "
                "of regions at munmap / blocks at realloc for 8-byte windows of the phrase in raw, <<1, ^0x36, ^0x5c, "
                "be32, be64, UCS-2 encodings; entropy buffer zero after return; primitive contexts and stacks; "
                "distinct = (monitor, method, request kind, outcome)",
        "object_checks_passed_validation": int(a.n.get("object_checks_passed_validation", 0)),
        "object_checks_failed_validation": int(a.n.get("object_checks_failed_validation", 0)),
        "stack_scans": int(a.n.get("stack_scans", 0)),
        "stack_bytes_scanned": int(a.n.get("stack_bytes_scanned", 0)),
        "static_storage_scans": int(a.n.get("static_storage_scans", 0)),
        "realloc_events_checked": int(a.n.get("realloc_seen", 0)),
        "munmap_events_scanned": int(a.n.get("munmap_seen", 0)),
        "entropy_buffer_checks": int(a.n.get("entropy_checks", 0)),
        "primitive_operations": int(a.n.get("prim_ops", 0)),
        "primitive_context_checks": int(a.n.get("prim_ctx_checks", 0)),
        "primitive_stack_scans": int(a.n.get("prim_stack_scans", 0)),
        "primitive_ops_with_stack_residue_informational": sorted(a.sets.get("prim_residue", ())),
        "object_checks_own_explicit_bzero_build": int(sum(v for k, v in a.n.items() if k.startswith("objown/"))),
        "builds_with_another_erase_primitive": int(a.n.get("erase_primitive_builds", 0)),
        "flavours": ["asan (object monitor)", "o0 -z now (stack, ledger, entropy, primitives)",
                     "-O2 build without libc explicit_bzero: lib/util-xbzero.c in use (object monitor)"],
    }
    return run_.finish(cov, assumptions=[
        "stack claim only for the -O0 build (the property restricts it so); registers and kernel copies are out of reach",
        "copies shorter than the 8-byte scan window are not detected"],
        min_conclusive=1500,
        required=dict([("object/" + m, a.n.get("obj/" + m, 0)) for m in gen.METHODS] +
                      [("stack/" + m, a.n.get("stk/" + m, 0)) for m in gen.METHODS]))
