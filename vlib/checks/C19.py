"""C19 - every --enable-hashes selection yields a coherent library
(DESIGN §4 C19).

For each selection the repository's own scripts generate crypt-hashes.h /
crypt.h, the library sources are compiled and linked with the worker, and a
fixed corpus (every method's settings, the shared-code neighbours, the gensalt
corpus, checksalt, preferred method) is executed and compared with
expectations derived from the *full* build and the documented rules."""
import os
import re
import shutil
import subprocess

from .. import build, common, facts, gen, pool, rt

PID = "C19"
CFLAGS = "-O1 -g0"
GROUPS = ["strong", "alt", "freebsd", "glibc", "netbsd", "openbsd", "osx", "owl", "solaris", "suse",
          "debian", "fedora"]

CHEAP = {
    # (the long salts decode to 56 and 64 bytes: PBKDF2's salt-length classes)
    "yescrypt": [b"$y$j5.$c2FsdHNhbHQ", b"$y$/3/$7Dx0/", b"$y$.5/$saltsalt", b"$y$j5.$" + b"Abcdefgh" * 9 + b"AbC", b"$y$j5.$" + b"Zyxwvuts" * 10 + b"Zyxwv/"],
    "gost_yescrypt": [b"$gy$j5.$c2FsdHNhbHQ", b"$gy$.2/$12345/", b"$gy$j5.$" + b"Abcdefgh" * 9 + b"AbC"],
    "scrypt": [b"$7$3/..../....saltsalt", b"$7$2/....0....ab$cd$", b"$7$2/..../...." + b"Salt" * 75, b"$7$2/..../...." + b"x" * 325],
    "bcrypt": [b"$2b$04$abcdefghijklmnopqrstuu"], "bcrypt_y": [b"$2y$04$abcdefghijklmnopqrstuu"],
    "bcrypt_a": [b"$2a$04$abcdefghijklmnopqrstuu"], "bcrypt_x": [b"$2x$04$abcdefghijklmnopqrstuu"],
    "sha512crypt": [b"$6$saltsalt", b"$6$rounds=1000$s"], "sha256crypt": [b"$5$saltsalt", b"$5$rounds=1001$s$"],
    "sha1crypt": [b"$sha1$20$saltsalt", b"$sha1$3$x$"], "sunmd5": [b"$md5,rounds=5$saltsalt$", b"$md5$salt$$", b"$md5$" + b"S" * 340 + b"$"],
    "md5crypt": [b"$1$saltsalt", b"$1$$"], "nt": [b"$3$", b"$3$$junk"],
    "bsdicrypt": [b"_/...salt", b"_1...abcdtail", b"_/......."],
    "des": [b"ab", b"xy1234567890a", b"ab............", b"Zz" + b"q" * 30, b"a", b"a!",
            b"..", b"..abcdefghijk", b"./", b"/.", b"zz", b".." + b"." * 12],     # salt value 0 and the extremes
}
PHRASES = [b"short", b"a phrase longer than eight", b"12345678", b"123456789",
           b"\xff\xff\xa3", b"\xff\xa334\xff\xff\xff\xa3345",          # crypt_blowfish's sign-extension collision pairs
           b"x" * 64, b"block sized " * 10 + b"12345678",
           bytes((i * 7 + 33) % 94 + 33 for i in range(200)), bytes((i * 11 + 40) % 94 + 33 for i in range(300))]                  # 64 and 128 bytes: hash-core block boundaries


def corpus():
    c = []
    for fam, settings in CHEAP.items():
        for s in settings:
            for p in PHRASES:
                c.append((fam, p, s))
    # tags only and unknown tags
    for t in (b"$y$", b"$gy$", b"$7$", b"$2b$", b"$6$", b"$5$", b"$sha1", b"$md5", b"$1$", b"$3$", b"_", b"$9$x", b"$2z$04$a"):
        c.append(("tag", b"pw", t))
    return c


def selections(seed, tier):
    sels = [("single:" + m, [m]) for m in gen.METHODS]
    sels += [("group:" + g, g) for g in GROUPS]
    sels.append(("all", list(gen.METHODS)))
    # mixed spellings of the option: a method before a group that does not contain it, and the reverse
    sels += [("mixed:yescrypt,glibc", "yescrypt,glibc"), ("mixed:glibc,yescrypt", "glibc,yescrypt"), ("mixed:nt,osx,bcrypt", "nt,osx,bcrypt")]
    if tier == "thorough":
        sels += [("without:" + m, [x for x in gen.METHODS if x != m]) for m in gen.METHODS]
        rng = rt.rng_for(seed, PID, "subsets")
        for i in range(100):
            k = rng.randint(2, 14)
            sels.append(("random:%d" % i, sorted(rng.sample(gen.METHODS, k))))
        # isolate each `#if INCLUDE_a && !INCLUDE_b` guard
        sels += [("guard:scrypt-not-yescrypt", ["scrypt", "gost_yescrypt"]),
                 ("guard:yescrypt-not-scrypt", ["yescrypt"]),
                 ("guard:gost-only", ["gost_yescrypt"]),
                 ("guard:bigcrypt-not-descrypt", ["bigcrypt", "sha512crypt"]),
                 ("guard:descrypt-not-bigcrypt", ["descrypt", "bsdicrypt"])]
    else:
        sels += [("without:" + m, [x for x in gen.METHODS if x != m]) for m in ("descrypt", "bigcrypt", "scrypt", "yescrypt")]
        sels += [("guard:scrypt-not-yescrypt", ["scrypt", "gost_yescrypt"]),
                 ("guard:bigcrypt-not-descrypt", ["bigcrypt", "sha512crypt"])]
    return sels


def expand(sel):
    """names,of,groups -> list of methods through the repository's script"""
    if isinstance(sel, list):
        arg = ",".join(sel)
    else:
        arg = sel
    scr = os.path.join(build.REPO, "build-aux", "scripts")
    p = subprocess.run(["perl", "-I", scr, os.path.join(scr, "expand-selected-hashes"),
                        os.path.join(build.REPO, "lib", "hashes.conf"), arg],
                       stdout=subprocess.PIPE, stderr=subprocess.PIPE, text=True, env=dict(os.environ, LC_ALL="C"))
    if p.returncode != 0:
        return None, p.stderr
    return [x for x in p.stdout.strip().strip(",").split(",") if x], ""


def independent_group(g):
    """the same expansion from hashes.conf, independently"""
    out = []
    with open(os.path.join(build.REPO, "lib", "hashes.conf")) as f:
        for ln in f:
            if ln.startswith("#") or not ln.strip():
                continue
            t = ln.split()
            if len(t) >= 4 and g.upper() in t[3].split(","):
                out.append(t[0])
    return sorted(out)


def build_config(args):
    name, en = args[:2]
    overrides = args[2] if len(args) > 2 else None
    cflags = args[3] if len(args) > 3 and args[3] else CFLAGS
    d = os.path.join(rt.TREE.dir, "cfg-%s-%d" % (re.sub(r"\W", "_", name), os.getpid()))
    shutil.rmtree(d, ignore_errors=True)
    os.makedirs(d)
    try:
        build.gen_headers(os.path.join(d, "gen"), hashes=en, obsolete_api=("descrypt" in en),
                          config_overrides=overrides)
        lib = os.path.join(build.REPO, "lib")
        objs = []
        for s in build.LIB_SOURCES:
            o = os.path.join(d, s[:-2] + ".o")
            cmd = "gcc -std=gnu11 -w -DHAVE_CONFIG_H -DIN_LIBCRYPT -D%s %s -I%s -I%s -c %s -o %s" % (
                build.GUARD, cflags, os.path.join(d, "gen"), lib, os.path.join(lib, s), o)
            p = subprocess.run(cmd, shell=True, stdout=subprocess.PIPE, stderr=subprocess.STDOUT, text=True)
            if p.returncode != 0:
                return name, en, None, "compile %s: %s" % (s, p.stdout[-600:]), None
            objs.append(o)
        exe = os.path.join(d, "vw")
        w = " ".join("-Wl,--wrap=" + x for x in build.WRAPS)
        # an application that defines the un-prefixed names of the library's internals itself (OpenSSL's MD5_Init,
        # SHA256_Init ...): crypt-port.h renames all of them to _crypt_*, so in every selection these definitions must
        # neither collide at link time nor ever be called
        with open(os.path.join(build.REPO, "lib", "crypt-port.h")) as f:
            names = sorted(set(re.findall(r"^#\s*define\s+(\w+)\s+_crypt_\w+", f.read(), re.M)) - {"explicit_bzero"})
        poison = os.path.join(d, "poison.c")
        with open(poison, "w") as f:
            f.write("#include <stdlib.h>\n#include <unistd.h>\n#include <string.h>\n"
                    "static void hit (const char *n) { (void) !write (2, \"POISON-SYMBOL-CALLED \", 21); (void) !write (2, n, strlen (n)); "
                    "(void) !write (2, \"\\n\", 1); abort (); }\n")
            for n_ in names:
                f.write("void %s (void);\nvoid %s (void) { hit (\"%s\"); }\n" % (n_, n_, n_))
        cmd = "gcc -std=gnu11 -D_GNU_SOURCE %s -I%s -I%s %s %s %s -o %s %s -lpthread -ldl" % (
            cflags, os.path.join(d, "gen"), build.HARNESS, os.path.join(build.HARNESS, "vw.c"), poison, " ".join(objs), exe, w)
        p = subprocess.run(cmd, shell=True, stdout=subprocess.PIPE, stderr=subprocess.STDOUT, text=True)
        if p.returncode != 0:
            return name, en, None, "link: %s" % p.stdout[-800:], None
        with open(os.path.join(d, "gen", "crypt.h")) as f:
            m = re.search(r"#define CRYPT_GENSALT_IMPLEMENTS_DEFAULT_PREFIX (\d)", f.read())
        return name, en, exe, "", (int(m.group(1)) if m else None)
    except build.BuildError as e:
        return name, en, None, str(e)[-800:], None


def run_corpus(exe, corp):
    w = pool.Worker(exe)
    # a recycled, non-zero object: crypt.h only asks callers to clear 'reserved' and 'initialized'
    lines = [rt.obj_line(0, align=5, fill="r", seed=len(exe))]
    for fam, p, s in corp:
        lines.append("fill 0 r %d" % (len(p) * 131 + len(s)))
        lines.append(rt.crypt_line("crypt_rn", 0, p, s))
        lines.append("checksalt %s" % pool.hx(s))
        # the arguments kept in the object's own input/setting fields, random bytes behind their terminators
        lines.append("fill 0 r %d" % (len(p) * 17 + len(s) + 5))
        lines.append(rt.crypt_line("crypt_rn", 0, p, s, "=", "i"))
    rb = facts.rbytes_pattern("inc", 64)
    gl = []
    for m in gen.METHODS:
        if m == "descrypt":
            continue        # same empty prefix as bigcrypt
        gl.append((m, gen.TAG[m]))
    gl.append(("NULL", None))
    for m, pre in gl:
        lines.append(rt.gensalt_line("rn", pre, 0, rb, 64, 192))
    # counts other than 0: acceptance must not depend on which sibling method is the table's entry point
    for m, pre in gl:
        for cnt in (1, 5):
            lines.append(rt.gensalt_line("rn", pre, cnt, rb, 64, 192))
    # the entry point with the static buffer, same arguments: the buffer is as large in every configuration
    for m, pre in gl:
        lines.append(rt.gensalt_line("st", pre, 0, rb, 64, 192))
    lines.append("preferred")
    res, end = w.run(lines, 600)
    if end is not None:
        w.stop()
        return None, end, lines
    # round trip (C01) in this configuration: every hash produced is accepted as a setting and reproduces itself
    rl, ridx = [rt.obj_line(0, align=5, fill="r", seed=7)], []
    for i, (fam, p, s) in enumerate(corp):
        h = rt.hash_of(res[2 + 5 * i])
        if h is not None:
            ridx.append((i, h))
            rl.append(rt.crypt_line("crypt_rn", 0, p, h))
    res2, end2 = w.run(rl, 600)
    w.stop()
    rehash = {}
    if end2 is None:
        for (i, h), r in zip(ridx, res2[1:]):
            rehash[i] = (h, rt.hash_of(r), rt.errno_of(r))
    elif isinstance(end2, pool.Death):
        return None, end2, rl
    out = {"crypt": [], "gensalt": {}, "preferred": rt.unhx(res[-1].get("v", "-")), "rehash": rehash}
    for i, (fam, p, s) in enumerate(corp):
        a, b, c = res[2 + 5 * i], res[3 + 5 * i], res[5 + 5 * i]
        out["crypt"].append((rt.hash_of(a), rt.errno_of(a), int(b["v"])))
        out.setdefault("inobj", []).append(rt.hash_of(c))
        out.setdefault("mon", []).append({k: a.get(k) for k in ("can", "nul", "iz", "rz", "init", "r")})
    base = 1 + 5 * len(corp)
    for k, (m, pre) in enumerate(gl):
        r = res[base + k]
        out["gensalt"][m] = (rt.out_of(r) if r["r"] == "O" else None, rt.errno_of(r))
    out["gensalt_counts"] = {}
    base2 = base + len(gl)
    j = 0
    for m, pre in gl:
        for cnt in (1, 5):
            r = res[base2 + j]
            j += 1
            out["gensalt_counts"][(m, cnt)] = (rt.out_of(r) if r["r"] == "O" else None, rt.errno_of(r))
    out["gensalt_static"] = {}
    for k, (m, pre) in enumerate(gl):
        r = res[base2 + j + k]
        out["gensalt_static"][m] = (rt.out_of(r) if r["r"] in ("O", "S") else None, rt.errno_of(r), r["r"])
    return out, None, lines


def judge(acc, name, en, got, full, corp, ipd):
    def viol(kind, detail):
        acc.violation("%s/%s/%s" % (PID, kind, name.split(":")[0]),
                      "selection %s = %s: %s" % (name, ",".join(en), detail), {"selection": en})
    des_b, des_d = "bigcrypt" in en, "descrypt" in en
    for i, (fam, p, s) in enumerate(corp):
        h, e, v = got["crypt"][i]
        fh = full["crypt"][i][0]
        acc.count("evaluations")
        # the object monitors of C04/C09 hold in every configuration as well
        mon = got.get("mon", [{}] * len(corp))[i]
        if mon.get("can") == "0" or mon.get("nul") == "0" or mon.get("r", "N") not in ("N", "O"):
            viol("object-monitor", "crypt(%r, %r): canary/NUL/pointer monitor %s" % (p, s, mon))
        if gen.must_fail(p, s, en) is None and (mon.get("iz") == "0" or mon.get("rz") == "0" or mon.get("init") not in ("0", None)):
            viol("scratch-not-wiped", "crypt(%r, %r): internal/reserved/initialized not reset %s" % (p, s, mon))
        if "inobj" in got and got["inobj"][i] != h and len(p) < 512 and len(s) < 384:
            viol("in-object-arguments-differ", "crypt_rn(%r, %r) gives %r with separate argument buffers and %r with the "
                                               "arguments kept in data->input / data->setting" % (p, s, h, got["inobj"][i]))
        rh = got.get("rehash", {}).get(i)
        if rh is not None:
            acc.count("round_trips")
            if rh[1] != rh[0]:
                viol("round-trip", "crypt(%r, %r) = %r, but with that hash as the setting the result is %r (errno %d)" % (
                    p, s, rh[0], rh[1], rh[2]))
        m = gen.classify(s, en)                 # which enabled method claims it (None: nobody)
        m_full = gen.classify(s)
        exp_v = gen.checksalt_expect(s, en)
        if v != exp_v:
            viol("checksalt", "crypt_checksalt(%r) = %d, expected %d" % (s, v, exp_v))
        if m is None:
            if h is not None:
                viol("disabled-method-reachable", "crypt(%r) succeeds although no enabled method claims it (full build: %s)" % (s, m_full))
            elif m_full is not None and e != rt.EINVAL:
                viol("disabled-errno", "crypt(%r) fails with errno %d, want EINVAL" % (s, e))
            acc.cls((name.split(":")[0], "refused", m_full))
            continue
        if m_full in ("bigcrypt", "descrypt"):
            if des_b and des_d:
                exp = fh
            elif des_d:
                exp = full["des2"].get((p, s[:2]))
            else:
                exp = None if (len(p) > 8 and len(s) <= 13) else fh
        else:
            exp = fh
        acc.cls((name.split(":")[0], "enabled", m_full))
        if h != exp:
            viol("enabled-method-differs", "crypt(%r, %r) = %r, expected %r" % (p, s, h, exp))
    for m, (g, e) in got["gensalt"].items():
        acc.count("evaluations")
        fg = full["gensalt"][m][0]
        if m == "NULL":
            pm = next((x for x in gen.DEFAULT_ORDER if x in en), None)
            exp = full["gensalt"][pm][0] if pm else None
        elif m == "bigcrypt":
            if des_b and des_d:
                exp = fg
            elif des_d:
                exp = fg
            elif des_b:
                exp = fg + b"." * 12 if fg else None
            else:
                exp = None
        else:
            exp = fg if m in en else None
        if g != exp:
            viol("gensalt", "crypt_gensalt_rn(prefix of %s) = %r, expected %r" % (m, g, exp))
        elif exp is None and e != rt.EINVAL:
            viol("gensalt-errno", "disabled prefix %s: errno %d, want EINVAL" % (m, e))
    for (m, cnt), (g, e) in got["gensalt_counts"].items():
        acc.count("evaluations")
        fg, fe = full["gensalt_counts"][(m, cnt)]
        if m == "NULL":
            pmn = next((x for x in gen.DEFAULT_ORDER if x in en), None)
            exp = full["gensalt_counts"][(pmn, cnt)][0] if pmn else None
        elif m == "bigcrypt":
            exp = (fg if (des_b and des_d) or des_d else (fg + b"." * 12 if fg and des_b else None)) if (des_b or des_d) else None
        else:
            exp = fg if m in en else None
        if g != exp:
            viol("gensalt-count", "crypt_gensalt_rn(prefix of %s, count %d) = %r, the full build gives %r" % (m, cnt, g, exp))
    for m, (g, e, rr) in got.get("gensalt_static", {}).items():
        acc.count("evaluations")
        acc.count("gensalt_static_calls")
        if g != got["gensalt"][m][0]:
            viol("gensalt-static", "crypt_gensalt(prefix of %s, 64 random bytes) = %r (errno %d), crypt_gensalt_rn with a "
                                   "%d-byte buffer gives %r in the same build" % (m, g, e, 192, got["gensalt"][m][0]))
    pm = next((gen.TAG[x] for x in gen.DEFAULT_ORDER if x in en), None)
    acc.count("evaluations")
    if got["preferred"] != pm:
        viol("preferred-method", "crypt_preferred_method() = %r, strongest enabled default-capable prefix is %r" % (got["preferred"], pm))
    if ipd is not None and ipd != (1 if pm else 0):
        viol("implements-default-prefix", "CRYPT_GENSALT_IMPLEMENTS_DEFAULT_PREFIX = %s, want %d" % (ipd, 1 if pm else 0))


def run(tier):
    run_ = common.Run(PID, tier, "exploration")
    rt.prepare(["asan"])
    corp = corpus()
    full, end, lines = run_corpus(rt.PATHS["vw-asan"], corp)
    if full is None:
        run_.harness_error("full build corpus run failed")
        return run_.finish({"rule": "n/a"}, min_conclusive=10 ** 9)
    # descrypt-only expectation: full build on the first two characters of the setting
    w = pool.Worker(rt.PATHS["vw-asan"])
    d2 = sorted(set((p, s[:2]) for fam, p, s in corp if fam == "des" and gen.classify(s)))
    res, e2 = w.run([rt.obj_line(0)] + [rt.crypt_line("crypt_rn", 0, p, s2) for p, s2 in d2], 300)
    w.stop()
    full["des2"] = {k: rt.hash_of(r) for k, r in zip(d2, res[1:])} if e2 is None else {}
    sels = []
    acc = common.Acc()
    for name, sel in selections(run_.seed, tier):
        en, err = expand(sel)
        if en is None:
            acc.violation("%s/selection-rejected/%s" % (PID, name.split(":")[0]),
                          "expand-selected-hashes rejects %s: %s" % (sel, err), None)
            continue
        if isinstance(sel, str):
            # a group name, or a comma list mixing method names and group names (in any order)
            ind = set()
            for wd in sel.split(","):
                ind |= set(independent_group(wd) or [wd])
            ind = sorted(ind)
            if sorted(en) != ind:
                acc.violation("%s/group-expansion/%s" % (PID, sel), "script gives %s, hashes.conf says %s" % (sorted(en), ind), None)
        sels.append((name, sorted(en)))
    built = pool.pmap(build_config, sels)
    nbuilt = 0
    for name, en, exe, err, ipd in built:
        if exe is None:
            acc.violation("%s/build-fails/%s" % (PID, name.split(":")[0]),
                          "selection %s = %s does not build: %s" % (name, ",".join(en), err), {"selection": en})
            continue
        nbuilt += 1
        got, end, lines = run_corpus(exe, corp)
        if got is None:
            if isinstance(end, pool.Death):
                rt.death_violation(acc, PID, end, "cfg", lines[end.line], "corpus/" + name.split(":")[0])
            else:
                acc.inconc("corpus timeout for " + name)
        else:
            judge(acc, name, en, got, full, corp, ipd)
            acc.sets["configs"].add(name)
        shutil.rmtree(os.path.dirname(exe), ignore_errors=True)
    run_.merge(acc)
    cov = {
        "rule": "configuration = a selection of hashing methods (16 singletons, the named groups of hashes.conf, the "
                "full set, leave-one-out and guard-isolating sets, %s) -> headers generated by the repository's "
                "scripts -> library compiled and linked with the worker -> corpus of %d crypt requests (all methods, "
                "DES-family and yescrypt-family neighbours) + gensalt + checksalt + preferred method, compared with "
                "the full build and the documented rules; distinct = (selection kind, enabled/refused, method)" % (
                    "100 random subsets" if tier == "thorough" else "sampled in quick", len(corp)),
        "configurations_built": nbuilt,
        "configurations_requested": len(sels),
        "corpus_requests_per_configuration": len(corp),
        "round_trips_checked_across_configurations": int(run_.acc.n.get("round_trips", 0)),
        "argument_placements": ["separate exact-size buffers", "inside data->input / data->setting of a randomly filled object"],
        "samples": [{"selection": n, "methods": e} for n, e in sels[:3]],
    }
    return run_.finish(cov, assumptions=[
        "2^16 subsets are sampled, not enumerated", "configurations are compiled at -O1 without sanitizers (memory safety is C04's)",
        "--enable-obsolete-api / --enable-failure-tokens variations are not part of this property"],
        min_conclusive=2000, required={"configs": nbuilt})
