"""C03 - a different pass-phrase or salt never reproduces the hash (DESIGN §4 C03).

Metamorphic inequality oracle on the asan flavour: every perturbation of the
phrase inside the documented significant window, and every perturbation of the
setting that changes the canonical setting part of the result, must change the
digest."""
import os

from .. import common, gen, pool, rt
from ..pool import Death, Timeout

PID = "C03"
FL = "asan"
BUDGET = 45000

# methods whose documented insignificant input includes the 8th bit / quirks:
# exercised with 7-bit phrases and perturbations only
SEVEN_BIT = {"descrypt", "bigcrypt", "bsdicrypt", "bcrypt_x", "bcrypt_a"}


def window(m, setting, plen):
    if m == "descrypt":
        return 8
    if m == "bigcrypt":
        return 128 if len(setting) >= 14 else 8
    if m.startswith("bcrypt"):
        return 72
    return 511


def base_settings(rng, m, n):
    """n base settings; the first one always carries a salt of at least the
    method's nominal size (so that every salt character position exists)."""
    out = []
    tries = 0
    while len(out) < n and tries < 2000:
        tries += 1
        s, form = gen.gen_valid(rng, m)
        if gen.cost_units(s, 511) > BUDGET or len(s) >= 140:
            continue
        if not out and "salt" in form and not ("salt=" in form or "salt>" in form or "salt-a64=" in form
                                               or "salt-a64>" in form):
            continue
        out.append((s, form))
    return out


def make_jobs(seed, tier):
    jobs = []
    npos = 64 if tier == "quick" else 511
    for m in gen.METHODS:
        rng = rt.rng_for(seed, PID, m)
        nb = 2 if tier == "quick" else 3
        allb = base_settings(rng, m, nb * 5)
        for bi in range(nb):
            # candidates: the library may refuse some grammar-generated forms
            cands = allb[bi::nb]
            if not cands:
                continue
            s, form = cands[0]
            for blen in (511, rng.choice([9, 20, 73, 130])):
                lo, hi = (0x21, 0x7E) if m in SEVEN_BIT else (1, 255)
                base = bytes(rng.randint(lo, hi) for _ in range(blen))
                win = min(window(m, s, blen), blen)
                positions = list(range(win))
                if len(positions) > npos:
                    positions = sorted(rng.sample(positions, npos - 2) + [0, win - 1])
                jobs.append((m, cands, base, positions, rng.getrandbits(32)))
    return jobs


SWEEP_LENS = list(range(1, 141)) + [191, 192, 193, 255, 256, 257, 447, 448, 449, 510, 511]


def make_sweep_jobs(seed, tier):
    """one base phrase of every length (1..140 and the block boundaries up to
    511), each perturbed at its first, last and a random significant byte:
    length-specific slips (a block boundary, a dropped update) need a base of
    exactly that length"""
    jobs = []
    for m in gen.METHODS:
        rng = rt.rng_for(seed, PID, "sweep", m)
        cands = base_settings(rng, m, 5)
        lens = SWEEP_LENS if tier == "thorough" else SWEEP_LENS
        for part in pool.chunks(lens, 40):
            jobs.append(("sweep", m, cands, part, rng.getrandbits(32)))
    return jobs


def do_sweep(job):
    _, m, cands, lens, nz = job
    acc = common.Acc()
    w = rt.vw(FL)
    rng = rt.rng_for(nz, "sweep")
    setup = [rt.obj_line(0, align=6)]
    s = None
    for cs, form in cands:
        res, end = w.run(setup + [rt.crypt_line("crypt_rn", 0, b"probe phrase", cs)], 200)
        if end is None and rt.hash_of(res[-1]) is not None:
            s = cs
            break
    if s is None:
        return acc
    lo, hi = (0x21, 0x7E) if m in SEVEN_BIT else (1, 255)
    lines, meta = [], []
    for L in lens:
        base = bytes(rng.randint(lo, hi) for _ in range(L))
        if m in ("descrypt", "bigcrypt", "bsdicrypt") and L % 2:
            # 8-bit text (UTF-8 and friends): bytes 0x80..0xFF inside the window, among them 0x80
            # itself, whose seven low bits are all zero
            base = bytes(rng.choice([0x80, 0xC3, 0xE2, rng.randint(0x81, 0xFE), rng.randint(0x21, 0x7E)]) for _ in range(L))
        win = min(window(m, s, L), L)
        pos = sorted(set([0, win - 1, rng.randrange(win)]))
        lines.append(rt.crypt_line("crypt_rn", 0, base, s))
        meta.append(("base", L, None))
        for i in pos:
            lab, p2 = perturb(rng, m, base, i)[rng.randrange(2)]
            lines.append(rt.crypt_line("crypt_rn", 0, p2, s))
            meta.append((lab, L, i))
    rows = rt.run_resilient(w, setup, lines, timeout=200)
    H = None
    bl = None
    for (kind, L, i), r, ln in zip(meta, rows, lines):
        if not isinstance(r, dict):
            acc.inconc("sweep death/timeout")
            continue
        h = rt.hash_of(r)
        if kind == "base":
            H, bl = h, ln
            continue
        acc.count("evaluations")
        if H is None or h is None:
            continue
        acc.count("phrase_perturbations")
        acc.count("pp/" + m)
        acc.count("length_sweep")
        acc.cls((m, "len-sweep", L))
        if h == H:
            acc.violation("%s/phrase-insensitive/%s" % (PID, m),
                          "setting=%r phrase length %d: %s at byte %d gives the same hash %r" % (s, L, kind, i, H),
                          rt.replay_obj(FL, setup + [bl, ln]))
    return acc


def perturb(rng, m, base, i):
    """phrase perturbations at position i: (label, phrase).  For the methods whose
    8th bit is documented as insignificant only the low seven bits are changed
    (the 8th bit of the byte, set or not, is kept)."""
    out = []
    seven = m in SEVEN_BIT
    b = base[i]
    bit = rng.randrange(7 if seven else 8)
    nb = b ^ (1 << bit)
    if (nb & 0x7F if seven else nb) == 0:
        nb = b ^ 1 if ((b ^ 1) & 0x7F if seven else (b ^ 1)) else b ^ 2
    out.append(("bitflip", base[:i] + bytes([nb]) + base[i + 1:]))
    while True:
        c = rng.randint(1, 127 if seven else 255)
        if seven:
            c |= b & 0x80
        if c != b and c != nb:
            break
    out.append(("byte", base[:i] + bytes([c]) + base[i + 1:]))
    out.append(("truncate", base[:i]))
    return out


def do_job(job):
    m, cands, base, positions, nz = job[:5]
    acc = common.Acc()
    w = pool.Worker(job[5]) if len(job) > 5 else rt.vw(FL)
    rng = rt.rng_for(nz, "pert")
    setup = [rt.obj_line(0, align=4)]
    # entry point and argument placement vary per job: separate buffers, or phrase and setting kept in the
    # object's own input/setting fields (the usage crypt.h suggests)
    entry = ("crypt_rn", "crypt_r", "crypt_rn", "crypt_r")[(nz >> 2) & 3]
    place = "sipg"[nz % 4]

    def cl(p_, s_):
        return rt.crypt_line(entry, 0, p_, s_, "=", place)
    H = None
    for s, form in cands:
        res, end = w.run(setup + [cl(base, s)], 200)
        if end is None and rt.hash_of(res[-1]) is not None:
            H = rt.hash_of(res[-1])
            break
        acc.count("base_rejected")
    if H is None:
        if len(job) > 5:
            w.stop()
        return acc
    rm = gen.result_method(s, len(base)) or m
    sp = gen.split_hash(rm, H)
    if not sp:
        acc.count("base_unsplittable")
        if len(job) > 5:
            w.stop()
        return acc
    Hset, Hdig, alpha = sp
    lines = []
    meta = []
    win = window(m, s, len(base))
    for i in positions:
        for lab, p2 in perturb(rng, m, base, i):
            lines.append(cl(p2, s))
            meta.append(("phrase-" + lab, i, p2, s))
    if len(base) < win:
        for c in (0x41, 0x7e):
            lines.append(cl(base + bytes([c]), s))
            meta.append(("phrase-extend", len(base), base + bytes([c]), s))
    # setting perturbations: every character of the canonical setting part
    # (the tag itself is not salt or cost: e.g. $2a$/$2b$/$2y$ are the same
    # algorithm for 7-bit phrases, so tag characters are left alone).  Each
    # character is replaced by the six neighbours that differ in one bit of
    # its 6-bit alphabet value (parity/masking slips show on adjacent values)
    # and by random other characters.
    for j in range(len(gen.TAG[m]), len(Hset)):
        al = alpha if Hset[j] in alpha else gen.A64
        cands = []
        if len(base) == 511:
            k = al.find(bytes([Hset[j]]))
            if k >= 0 and len(al) == 64:
                cands += [al[k ^ (1 << b)] for b in range(6)]
            if 0x30 <= Hset[j] <= 0x39:
                cands += [0x30 + ((Hset[j] - 0x30) ^ 1)]
        cands += [rng.choice(al) for _ in range(2 if len(base) == 511 else 1)]
        for c in cands:
            if c == Hset[j]:
                continue
            s2 = Hset[:j] + bytes([c]) + Hset[j + 1:]
            if m == "bsdicrypt" and s2[1:5] == b"....":
                continue    # count 0 is outside the documented range 1..2^24-1 (the library treats it as 1)
            if gen.cost_units(s2, len(base)) > BUDGET * 4:
                acc.count("skipped_expensive")
                continue
            lines.append(cl(base, s2))
            meta.append(("setting-char", j, base, s2))
    rows = rt.run_resilient(w, setup, lines, timeout=200)
    for (kind, pos, p2, s2), r, ln in zip(meta, rows, lines):
        acc.count("evaluations")
        if isinstance(r, Death):
            acc.inconc("worker death %s/%s" % (r.kind(), r.frame()))
            continue
        if isinstance(r, Timeout) or r is None:
            acc.inconc("timeout")
            continue
        h2 = rt.hash_of(r)
        if h2 is None:
            acc.count("perturbed_rejected")
            continue
        sp2 = gen.split_hash(gen.result_method(s2, len(p2)) or m, h2)
        if not sp2:
            acc.count("perturbed_unsplittable")
            continue
        set2, dig2, _ = sp2
        if kind.startswith("phrase"):
            acc.count("phrase_perturbations")
            acc.count("pp/" + m)
            acc.cls((m, kind, min(pos, 72) if pos < 130 else (pos // 64) * 64))
            if h2 == H:
                acc.violation("%s/phrase-insensitive/%s" % (PID, m),
                              "setting=%r base-len=%d %s at byte %d gives the same hash %r" % (
                                  s, len(base), kind, pos, H),
                              rt.replay_obj(FL, setup + [cl(base, s), ln]))
        else:
            if set2 == Hset:
                acc.count("setting_char_ignored")      # canonical form unchanged: documented-insignificant
                continue
            if m in ("yescrypt", "gost_yescrypt"):
                # the parameter field has alternate spellings (unused bits of the 'have' mask, multi-character
                # numbers); judge only when the decoded (flavour, N, r, p, t) or the salt really changed
                from .. import decode
                d1, d2 = decode.decode(m, Hset[:-1]), decode.decode(m, set2[:-1])
                if d1 is None or d2 is None or (d1["cost"], d1["salt"]) == (d2["cost"], d2["salt"]):
                    acc.count("setting_alternate_spelling")
                    continue
                if d1["salt"] == d2["salt"] and yes_effective(d1["cost"]) == yes_effective(d2["cost"]):
                    # yescrypt's definition rounds the loop counts derived from t (up to even, per thread): for
                    # small N/p two values of t describe the very same computation
                    acc.count("setting_equivalent_by_specification")
                    continue
            acc.count("setting_perturbations")
            acc.count("sp/" + m)
            acc.cls((m, kind, min(pos, 40)))
            if dig2 == Hdig:
                acc.violation("%s/salt-insensitive/%s" % (PID, m),
                              "settings %r and %r (canonical parts differ) give the same digest %r" % (
                                  Hset, set2, Hdig),
                              rt.replay_obj(FL, setup + [cl(base, s), ln]))
    acc.sample({"method": m, "setting": s.decode("latin1"), "base_len": len(base),
                "positions": len(positions), "hash": H.decode("latin1")}, cap=2)
    if len(job) > 5:
        w.stop()
    return acc


def yes_effective(cost):
    """what the yescrypt definition (smix) derives from (flavour, log2 N, r, p, t): the time parameter only enters
    through two loop counts that are rounded up to even"""
    fl, nl, r, p, t = cost
    rw = fl >= 2
    nchunk = (1 << nl) // max(p, 1)
    la = nchunk
    if rw:
        if t <= 1:
            if t:
                la *= 2
            la = (la + 2) // 3
        else:
            la *= t - 1
    elif t:
        if t == 1:
            la += (la + 1) // 2
        la *= t
    lrw = la // max(p, 1) if rw else 0
    return (fl, nl, r, p, (la + 1) & ~1, (lrw + 1) & ~1)


def do_cost_grid(args):
    """every cost parameter matters at realistic sizes too: yescrypt-family settings on both sides of the pre-hash
    condition (N/p >= 0x100 and N/p*r >= 0x20000, where a second code path runs) and scrypt: all combinations of a
    small parameter grid must give pairwise different digests for the same phrase and salt"""
    m, seed = args
    acc = common.Acc()
    w = rt.vw("opt")
    rng = rt.rng_for(seed, PID, "grid", m)
    phrase = gen.gen_phrase(rng, 20, "ascii")
    combos = []
    if m == "scrypt":
        sl = gen.rsalt(rng, 16)
        for nl in (10, 11):
            for rr in (8, 9):
                for p in (1, 2):
                    combos.append(((nl, rr, p), b"$7$" + gen.A64[nl:nl + 1] + gen.enc64_le(rr, 5) + gen.enc64_le(p, 5) + sl))
    else:
        salt = gen.yes_encode64(bytes(rng.getrandbits(8) for _ in range(16)))
        for fl in (b"j", b"/"):
            for nl, rr in ((12, 32), (11, 32), (13, 32), (14, 8)):
                for p in (1, 2):
                    for t in (0, 1, 2, 3):
                        have = (1 if p > 1 else 0) | (2 if t else 0)
                        params = fl + gen.yes_enc_uint(nl, 1) + gen.yes_enc_uint(rr, 1)
                        if have:
                            params += gen.yes_enc_uint(have, 1)
                            if p > 1:
                                params += gen.yes_enc_uint(p, 2)
                            if t:
                                params += gen.yes_enc_uint(t, 1)
                        combos.append(((fl, nl, rr, p, t), gen.TAG[m] + params + b"$" + salt))
        # parameters that need the two-character spelling of yescrypt's number code (values >= 49), at a small N
        for rr in (47, 48, 49, 50, 51, 56, 57, 64, 65, 112, 113):
            combos.append(((b"j", 4, rr, 1, 0), gen.TAG[m] + b"j" + gen.yes_enc_uint(4, 1) + gen.yes_enc_uint(rr, 1) + b"$" + salt))
        for p in (48, 49, 50, 51, 52, 64):
            combos.append(((b"j", 10, 1, p, 0), gen.TAG[m] + b"j" + gen.yes_enc_uint(10, 1) + gen.yes_enc_uint(1, 1)
                           + gen.yes_enc_uint(1, 1) + gen.yes_enc_uint(p, 2) + b"$" + salt))
    lines = [rt.crypt_line("crypt_rn", 0, phrase, s) for _, s in combos]
    rows = rt.run_resilient(w, [rt.obj_line(0), "mapcap %d" % (256 << 20)], lines, timeout=600)
    seen = {}
    for (par, s), r in zip(combos, rows):
        if not isinstance(r, dict):
            acc.inconc("cost grid: no answer for %r" % s)
            continue
        h = rt.hash_of(r)
        if h is None:
            acc.count("grid_refused")
            continue
        sp = gen.split_hash(m, h)
        if not sp:
            continue
        acc.count("evaluations")
        acc.count("cost_grid_hashes")
        acc.cls((m, "cost-grid", par[0] if m != "scrypt" else "7"))
        dig = sp[1]
        if dig in seen:
            acc.violation("%s/cost-insensitive/%s" % (PID, m),
                          "settings %r and %r (different cost parameters %r / %r, same salt, same phrase) give the same "
                          "digest %r" % (seen[dig][1], s, seen[dig][0], par, dig),
                          rt.replay_obj("opt", [rt.obj_line(0), rt.crypt_line("crypt_rn", 0, phrase, seen[dig][1]),
                                                rt.crypt_line("crypt_rn", 0, phrase, s)]))
        else:
            seen[dig] = (par, s)
    return acc


# builds in which a method is compiled without the sibling whose code it shares (code kept only "#if INCLUDE_x")
CONFIGS = [("yescrypt-no-scrypt", ["yescrypt", "gost_yescrypt"]), ("scrypt-only", ["scrypt"]), ("gost-only", ["gost_yescrypt"]),
           ("sha1crypt-sunmd5", ["sha1crypt", "sunmd5"])]
CONFIG_FIXED = {"yescrypt": [b"$y$.5/$saltsalt", b"$y$j5.$c2FsdHNhbHQ", b"$y$/5.$c2FsdHNhbHQ"],
                "gost_yescrypt": [b"$gy$.5/$saltsalt", b"$gy$j5.$c2FsdHNhbHQ"], "scrypt": [b"$7$5/..../....saltsalt"],
                "sha1crypt": [b"$sha1$20$saltsalt"], "sunmd5": [b"$md5,rounds=5$saltsalt$"]}


def do_config(args):
    from . import C19
    import shutil
    (name, en), seed, tier = args
    bname, en, exe, err, _ = C19.build_config((PID + "-" + name, en, None, "-O1 -g -fno-omit-frame-pointer "
                                               "-fsanitize=address,undefined -fno-sanitize-recover=all"))
    acc = common.Acc()
    if exe is None:
        acc.inconc("configuration %s does not build: %s" % (name, err[-300:]))
        return acc
    try:
        rng = rt.rng_for(seed, PID, "config", name)
        for m in en:
            for s in CONFIG_FIXED.get(m, []):
                for blen in (511, 130):
                    lo, hi = (1, 255)
                    base = bytes(rng.randint(lo, hi) for _ in range(blen))
                    positions = sorted(set(rng.sample(range(blen), min(blen, 40)) + [0, 63, 64, 65, blen - 1]))
                    acc.merge(do_job((m, [(s, "config")], base, positions, rng.getrandbits(32), exe)))
                    acc.count("configuration_jobs")
    finally:
        shutil.rmtree(os.path.dirname(exe), ignore_errors=True)
    for v in acc.viol:
        v["key"] = v["key"] + "@" + name
        v["detail"] = "[--enable-hashes=%s] %s" % (",".join(en), v["detail"])
    return acc


def run(tier):
    run_ = common.Run(PID, tier, "exploration")
    rt.prepare([FL, "opt"])
    jobs = make_jobs(run_.seed, tier)
    for acc in pool.pmap(do_job, jobs):
        run_.merge(acc)
    for acc in pool.pmap(do_config, [(c, run_.seed, tier) for c in CONFIGS]):
        run_.merge(acc)
    for acc in pool.pmap(do_sweep, make_sweep_jobs(run_.seed, tier)):
        run_.merge(acc)
    for acc in pool.pmap(do_cost_grid, [(m, run_.seed) for m in ("yescrypt", "gost_yescrypt", "scrypt")]):
        run_.merge(acc)
    a = run_.acc
    cov = {
        "cost_grid_hashes": int(a.n.get("cost_grid_hashes", 0)),
        "jobs_in_other_hash_selections": int(a.n.get("configuration_jobs", 0)),
        "other_hash_selections": [n_ + "=" + ",".join(h_) for n_, h_ in CONFIGS],
        "rule": "base = (method, accepted setting, random phrase of 511 and of a shorter length); perturbations: bit "
                "flip, byte replacement and truncation at each chosen byte position of the documented significant "
                "window (8 descrypt, 128 bigcrypt, 72 bcrypt, all otherwise), extension, and replacement of every "
                "character of the canonical setting part; a setting perturbation counts only when the canonical "
                "setting part of the result changed; distinct = (method, kind, position bucket)",
        "phrase_perturbations": int(a.n.get("phrase_perturbations", 0)),
        "setting_perturbations": int(a.n.get("setting_perturbations", 0)),
        "length_sweep_perturbations": int(a.n.get("length_sweep", 0)),
        "setting_chars_canonically_ignored": int(a.n.get("setting_char_ignored", 0)),
        "positions_exhaustive": tier == "thorough",
        "exhaustive": False,
        "flavour": FL,
    }
    return run_.finish(cov, assumptions=[
        "DES-based methods, $2x$ and $2a$ are driven with 7-bit phrases (8th bit / sign-extension quirks are "
        "documented insignificant inputs)",
        "an honest digest collision (< 2^-40 over the run) is ignored"],
        min_conclusive=3000, conclusive=int(a.n.get("phrase_perturbations", 0)),
        required=dict([("phrase/" + m, a.n.get("pp/" + m, 0)) for m in gen.METHODS] +
                      [("setting/" + m, a.n.get("sp/" + m, 0)) for m in gen.METHODS if m != "nt"]))
