"""C05 - failures are fail-closed (DESIGN §4 C05).

Every failing call must leave NULL / the failure token, a documented errno and
an output field that is exactly the token; requests the independent must-fail
oracle rejects must never succeed.  Histories: the same data objects go through
interleaved successes and failures of all entry points."""
import os
import re

from .. import build, common, gen, pool, rt
from ..pool import Death, Timeout

PID = "C05"
FL = "asan"
BUDGET = 15000
CD = rt.CD_SIZE


def failure_tokens_enabled():
    try:
        with open(build.os.path.join(rt.TREE.gendir(), "config.h")) as f:
            m = re.search(r"#define ENABLE_FAILURE_TOKENS (\d)", f.read())
            return bool(m and m.group(1) == "1")
    except OSError:
        return True


def base_settings(rng):
    out = []
    for m in gen.METHODS:
        for k in range(60):
            s, form = gen.gen_valid(rng, m)
            if gen.cost_units(s, 8) <= BUDGET and len(s) <= 80:
                out.append((m, s))
                break
    return out


def make_cases(seed, tier):
    """list of (label, phrase, setting, entry, sizearg)"""
    rng = rt.rng_for(seed, PID, "cases")
    cases = []
    bases = base_settings(rng)
    quick = tier == "quick"
    entries = ["crypt_rn", "crypt_rn", "crypt_r", "crypt_ra", "crypt"]
    for m, s in bases:
        ph = b"pass phrase"
        # byte x position sweep
        for i in range(len(s)):
            vals = range(1, 256)
            if quick:
                vals = rng.sample(range(1, 256), 14) + [0x3a, 0x3b, 0x2a, 0x21, 0x5c, 0x20, 0x7f, 0x80, 0x0a]
            for b in vals:
                if b == s[i]:
                    continue
                ms = s[:i] + bytes([b]) + s[i + 1:]
                if gen.cost_units(ms, len(ph)) > BUDGET * 4:
                    continue        # e.g. a cost digit turned $2b$04$ into $2b$24$: never executed
                cases.append(("sweep/" + m, ph, ms, rng.choice(entries), "="))
        for i in range(len(s)):
            cases.append(("trunc/" + m, ph, s[:i], rng.choice(entries), "="))
        cases.append(("valid/" + m, ph, s, rng.choice(entries), "="))
    # unknown prefixes
    pr = gen.SAFE_ALL
    for a in pr:
        cases.append(("prefix1", b"x", b"$" + bytes([a]) + b"$abcdefgh$", "crypt_rn", "="))
        cases.append(("prefix1", b"x", bytes([a]) + b"$abcdefgh", "crypt_r", "="))
    n2 = 800 if quick else len(pr) * len(pr)
    pairs = [(a, b) for a in pr for b in pr]
    for a, b in (rng.sample(pairs, n2) if quick else pairs):
        cases.append(("prefix2", b"x", b"$" + bytes([a, b]) + b"$abcdefgh$", rng.choice(entries), "="))
    for t in (b"*", b"*0", b"*1", b"*0abc", b"*1abc", b"**", b"!", b"!!", b"x", b"$", b"$$", b"$2z$04$" + b"a" * 53,
              b"$8$salt$", b"$md5x$salt$", b"$sha2$5$salt", b"$2$04$" + b"a" * 53, b"$y", b"$gy", b"$7", b"$6",
              b"$argon2id$v=19$m=4096,t=3,p=1$c2FsdA$aGFzaA", b"$pbkdf2-sha256$29000$salt$hash", b""):
        for e in ("crypt_rn", "crypt_r", "crypt_ra", "crypt"):
            cases.append(("special", b"pw", t, e, "="))
    # NULLs, long phrases, small sizes
    for m, s in bases:
        for e in ("crypt_rn", "crypt_r", "crypt_ra", "crypt"):
            cases.append(("null-phrase", None, s, e, "="))
            cases.append(("null-setting", b"pw", None, e, "="))
            if e != "crypt":
                # NULL is passed while the object's own setting / input field holds a perfectly good value
                cases.append(("null-setting-field", b"pw", s, e, "="))
                cases.append(("null-phrase-field", b"pw", s, e, "="))
            for L in (512, 513, 600, 4096):
                cases.append(("long-phrase", b"A" * L, s, e, "="))
        for sz in [-2147483648, -1, 0, 1, 2, 3, 4, 13, 383, 384, 385, CD - 1] + \
                ([] if quick else [rng.randrange(5, CD - 1) for _ in range(20)]):
            cases.append(("small-size", b"pw", s, "crypt_rn", sz))
            cases.append(("small-size", b"pw", b"*0", "crypt_rn", sz))
    # well-formed yescrypt-family settings that ask for what crypt() cannot provide (a ROM, a hash upgrade)
    for i in range(60 if quick else 1500):
        m = rng.choice(["yescrypt", "gost_yescrypt"])
        cases.append(("unsupported-parameter/" + m, gen.gen_phrase(rng, rng.choice([0, 5, 40])),
                      gen.gen_yes_unsupported(rng, m), rng.choice(entries), "="))
    for e in ("crypt_rn", "crypt_r", "crypt_ra", "crypt"):
        cases.append(("sha1-cost/sha1crypt", b"pw", b"$sha1$$GGXpNqoJvglVTkGU$", e, "="))
        cases.append(("sha1-cost/sha1crypt", b"pw", b"$sha1$$saltsalt", e, "="))
    # sha1crypt costs outside the documented range, in cheap spellings (strtoul wraps "-2^64+1" to 1)
    for f in (b"-18446744073709551615", b"-18446744073709551516", b"-0", b"-00"):
        for e in ("crypt_rn", "crypt_r", "crypt_ra", "crypt"):
            cases.append(("sha1-cost/sha1crypt", b"pw", b"$sha1$" + f + b"$saltsalt", e, "="))
    # a forbidden byte far behind the part of the setting the method reads (settings longer than the output field)
    for m, s in bases:
        for tail in (b"x" * 380 + b":", b"y" * 400 + b"\n", b"z" * 384 + b"\\", b"w" * 600 + b"!abc"):
            for sep in (b"$", b""):
                cases.append(("late-bad-char/" + m, b"pw", s + sep + tail, rng.choice(entries), "="))
    # sha-crypt round counts beyond the documented 999,999,999, in particular 2^32 + small and 2^64 + small
    for t in (b"$5$", b"$6$"):
        for n in (2 ** 32 + 1000, 2 ** 32 + 5000, 2 ** 32 + 99999, 2 ** 33 + 1000, 2 ** 64 + 1000, 10 ** 9, 10 ** 10 + 1000):
            cases.append(("rounds-above-max/" + ("sha256crypt" if t == b"$5$" else "sha512crypt"), b"pw",
                          t + b"rounds=%d$saltsalt" % n, rng.choice(entries), "="))
    # scrypt salts with several '$': a character outside the alphabet behind the FIRST '$' is still inside the salt
    for k in range(24):
        bad = bytes([rng.choice(b"=-+,@^_~#%")])
        a, b_, c = gen.rsalt(rng, rng.randint(1, 9)), gen.rsalt(rng, rng.randint(1, 6)), gen.rsalt(rng, rng.randint(1, 9))
        s = b"$7$" + rng.choice([b"2/..../....", b"3/....0...."]) + a + b"$" + b_ + bad + c + b"$" + rng.choice([b"", gen.rsalt(rng, 43)])
        cases.append(("scrypt-salt-char/scrypt", b"pw", s, rng.choice(entries), "="))
    # bcrypt cost fields that are not two decimal digits in 04..31: every pair of characters around the digits in
    # ASCII (a computed "digit value" of a neighbouring character can cancel out or alias a valid cost)
    chars = bytes(range(0x2b, 0x41))
    for tag in (b"$2b$", b"$2a$", b"$2y$", b"$2x$"):
        for a in chars:
            for b in chars:
                f = bytes([a, b])
                if (f.isdigit() and 4 <= int(f) <= 31) or tag != b"$2b$" and (a + b) % 7:
                    continue
                cases.append(("bcrypt-cost/" + gen.classify(tag + b"04$"), b"pw", tag + f + b"$abcdefghijklmnopqrstuu", rng.choice(entries), "="))
    # random mutations (may succeed or fail: shape only)
    nm = 4000 if quick else 60000
    for i in range(nm):
        m = rng.choice(gen.METHODS)
        s, f = gen.gen_valid(rng, m)
        s, lab = gen.mutate(rng, s, long_ok=False)
        if gen.cost_units(s, 8) > BUDGET:
            continue
        cases.append(("mutated/" + m, gen.gen_phrase(rng, rng.choice([0, 5, 9, 72, 200])), s, rng.choice(entries), "="))
    rng.shuffle(cases)
    return cases


def do_chunk(args):
    tokens_enabled, chunk = args[:2]
    acc = common.Acc()
    w = pool.worker(args[2]) if len(args) > 2 else rt.vw(FL)
    # errno as the caller left it before the call: 0, or an unrelated stale value (a failing call
    # must store its own code either way)
    pre = 0 if (len(chunk) + (chunk[0][2] or b"x")[-1]) % 2 else 2
    setup = [rt.obj_line(0, align=0, fill="r", seed=1), rt.obj_line(1, align=9, fill="f"),
             "raobj 2 -1 0", "preerrno %d" % pre]
    lines = []
    for lab, p, s, e, sz in chunk:
        if e == "crypt_rn" and sz != "=":
            lines.append(rt.obj_line(3, max(sz, 0), 0, "r", 3))
            lines.append(rt.crypt_line(e, 3, p, s, sz))
        else:
            slot = {"crypt_rn": 0, "crypt_r": 1, "crypt_ra": 2, "crypt": 0}[e]
            mode = "n" if lab == "null-setting-field" else "m" if lab == "null-phrase-field" else "s"
            if mode != "s" and e == "crypt_ra":
                slot, e2 = 0, "crypt_rn"
            else:
                e2 = e
            lines.append(rt.crypt_line(e2, slot, p, s, "=", mode))
    rows = rt.run_resilient(w, setup, lines)
    k = 0
    prev_kind = "fresh"
    for lab, p, s, e, sz in chunk:
        if e == "crypt_rn" and sz != "=":
            k += 1
        r = rows[k]
        ln = lines[k]
        k += 1
        if lab == "null-setting-field":
            s = None            # what the call was given
        elif lab == "null-phrase-field":
            p = None
        acc.count("evaluations")
        cls = lab.split("/")[0]
        mname = lab.split("/")[1] if "/" in lab else (gen.classify(s) if s is not None else None) or "none"
        if isinstance(r, Death):
            acc.count("deaths")
            prev_kind = "fresh"
            if gen.must_fail(p, s):
                # a request that can never be honoured has to be refused, not to take the process down
                acc.violation("%s/died-instead-of-refusing/%s/%s" % (PID, cls, mname),
                              "%s: the process died (%s in %s) on a request that must fail: %s" % (
                                  lab, r.kind(), r.frame(), ln[:200]), rt.replay_obj(FL, setup + [ln], r.brief()))
            else:
                acc.inconc("worker death (%s in %s) on %s" % (r.kind(), r.frame(), ln[:100]))
            continue
        if isinstance(r, Timeout) or r is None:
            acc.inconc("timeout " + ln[:100])
            continue

        def viol(kind, detail):
            acc.violation("%s/%s/%s/%s" % (PID, kind, cls, mname),
                          "%s entry=%s setting=%r phrase=%s size=%s after=%s: %s -> %s" % (
                              lab, e, s if s is None else s[:100],
                              "NULL" if p is None else len(p), sz, prev_kind, detail, r),
                          rt.replay_obj(FL, setup + [ln]))
        rr = r["r"]
        o = rt.out_of(r)
        err = rt.errno_of(r)
        size_fail = (e == "crypt_rn" and sz != "=" and sz < CD)
        mf = gen.must_fail(p, s) or ("size" if size_fail else None)
        h = rt.hash_of(r)
        if h is not None:
            acc.count("successes")
            if mf:
                viol("must-fail-succeeded", "oracle says %s but a hash was returned" % mf)
            elif s is not None and p is not None:
                rm = gen.result_method(s, len(p))
                why = gen.wellformed(rm, h) if rm else "no-method"
                if why:
                    viol("failure-looks-like-success",
                         "returned %r, which is not a %s hash (%s): a refused request or stale output reported as success" % (
                             h[:120], rm, why))
            prev_kind = "success"
            acc.cls((cls, mname, e, "ok", prev_kind))
            continue
        acc.count("failures")
        if cls == "sweep":
            acc.count("swf/" + mname)
        acc.cls((cls, mname, e, mf or "method-refused", prev_kind))
        prev_kind = "failure"
        acc.count("failures_pre_errno_%d" % pre)
        if err not in (rt.EINVAL, rt.ERANGE, rt.ENOMEM):
            viol("errno", "errno %d is not EINVAL/ERANGE/ENOMEM (errno before the call was %d)" % (err, pre))
        # what the entry point must return
        if e in ("crypt_rn", "crypt_ra"):
            if rr != "N":
                viol("nonnull-on-failure", "entry must return NULL on failure")
        else:
            if tokens_enabled and rr == "N":
                viol("null-instead-of-token", "build has failure tokens enabled but NULL was returned")
            if not tokens_enabled and rr != "N":
                viol("token-instead-of-null", "build has failure tokens disabled")
        # what the output field must hold
        limit = None
        if e == "crypt_rn" and sz != "=":
            limit = min(max(sz, 0), 384)
        if e == "crypt" and rr == "N":
            continue   # nothing observable
        if e == "crypt_ra" and o is None:
            continue   # allocation absent (only when realloc failed; not here)
        want = b"*1" if (s is not None and s[:2] == b"*0") else b"*0"
        if limit is not None and limit < 3:
            want = want[:max(limit - 1, 0)] if limit >= 1 else None
        if want is None:
            continue
        if o != want or r.get("nul") != "1":
            viol("token", "output field holds %r, want %r" % (o, want))
        if s is not None and o == s and o:
            viol("token-equals-setting", "token %r equals the setting" % o)
    return acc


def run(tier):
    run_ = common.Run(PID, tier, "exploration")
    rt.prepare([FL])
    tok = failure_tokens_enabled()
    cases = make_cases(run_.seed, tier)
    for acc in pool.pmap(do_chunk, [(tok, c) for c in pool.chunks(cases, 400)]):
        run_.merge(acc)
    # the other setting of the build option: the same fail-closed contract with NULL instead of the token
    from . import C19
    import shutil
    name, en, exe2, err, ipd = C19.build_config(("c05-noft", list(gen.METHODS), {"ENABLE_FAILURE_TOKENS": "0" if tok else "1"}))
    if exe2 is None:
        run_.acc.inconc("build with the other failure-token option failed: %s" % err[:200])
    else:
        sub = [c for c in cases if c[3] in ("crypt", "crypt_r")][:4000] + cases[:1500]
        for acc in pool.pmap(do_chunk, [(not tok, c, exe2) for c in pool.chunks(sub, 400)]):
            acc.n["other_option_failures"] = acc.n.get("failures", 0)
            run_.merge(acc)
        shutil.rmtree(os.path.dirname(exe2), ignore_errors=True)
    # a target where plain char is unsigned (ARM, POWER, s390x, RISC-V; here: -funsigned-char): `x < 0` tests on
    # decoded characters behave differently there
    name, en, exe3, err, ipd = C19.build_config(("c05-uchar", list(gen.METHODS), None, "-O1 -g0 -funsigned-char"))
    if exe3 is None:
        run_.acc.inconc("-funsigned-char build failed: %s" % err[:200])
    else:
        sub = [c for c in cases if c[0].startswith(("sweep/", "mutated/", "special", "prefix"))][:9000]
        for acc in pool.pmap(do_chunk, [(tok, c, exe3) for c in pool.chunks(sub, 400)]):
            acc.n["unsigned_char_build_cases"] = acc.n.get("evaluations", 0)
            for v in acc.viol:
                v["key"] += "@unsigned-char"
                v["detail"] = "[-funsigned-char build] " + v["detail"]
            run_.merge(acc)
        shutil.rmtree(os.path.dirname(exe3), ignore_errors=True)
    # the tokens themselves must be refused as settings (once; independent of seed)
    w = rt.vw(FL)
    res, end = w.run([rt.obj_line(0), rt.crypt_line("crypt_rn", 0, b"x", b"*0"),
                      rt.crypt_line("crypt_rn", 0, b"x", b"*1"), rt.crypt_line("crypt_rn", 0, b"x", b"*")])
    if end is None:
        for r, t in zip(res[1:], (b"*0", b"*1", b"*")):
            if rt.hash_of(r) is not None:
                run_.acc.violation(PID + "/token-accepted/special/none", "token %r hashes" % t, None)
    pool.stop_all()
    a = run_.acc
    cov = {
        "rule": "case = (class, phrase, setting, entry point, size) run in shuffled order on shared data objects "
                "(one per entry point) so that every failure follows a random earlier state; classes: every/sampled "
                "byte value at every position of one valid setting per method, every truncation, unknown 1-2 char "
                "prefixes, special tokens, NULL arguments, phrases >= 512, sizes < sizeof(struct crypt_data), "
                "field-aware mutations; distinct = (class, method, entry, failure reason, previous call kind)",
        "failures_observed": int(a.n.get("failures", 0)),
        "successes_observed": int(a.n.get("successes", 0)),
        "failure_tokens_enabled": tok,
        "failures_observed_with_the_other_failure_token_option": int(a.n.get("other_option_failures", 0)),
        "cases_on_an_unsigned_char_build": int(a.n.get("unsigned_char_build_cases", 0)),
        "exhaustive": tier == "thorough",
        "flavour": FL,
    }
    return run_.finish(cov, assumptions=[
        "requests outside the must-fail oracle may succeed or fail; then only the fail-closed shape is judged",
        "ENOMEM paths are C15's business",
        "exhaustive (thorough) refers to byte value x position per base setting"],
        min_conclusive=5000, conclusive=int(a.n.get("failures", 0)),
        required={m: a.n.get("swf/" + m, 0) for m in gen.METHODS})
