"""C06 - successful hashes are well-formed passwd(5)-safe strings (DESIGN §4 C06).

Driver-side grammar checker over every successful result of a grammar-driven
workload with many phrases per setting (digest-dependent shape), plus the
"accepted as a setting / as a gensalt prefix" clauses checked by execution."""
from .. import common, facts, gen, pool, rt
from ..pool import Death, Timeout

PID = "C06"
FL = "asan"
BUDGET = 20000


def make_cases(seed, tier):
    per = 110 if tier == "quick" else 1500
    nph = 4 if tier == "quick" else 5
    cases = []
    skipped = 0
    for m in gen.METHODS:
        for i in range(per):
            rng = rt.rng_for(seed, PID, m, i)
            s, form = gen.gen_valid(rng, m)
            if i % 4 == 3:
                s, lab = gen.mutate(rng, s, long_ok=False)
                form = "mutated:" + lab.split("-")[0]
            elif i % 8 == 1:
                # the characters that sit between the runs of the base-64 alphabets in ASCII ('9'..'A', 'Z'..'a'):
                # passwd(5)-safe, so only the method's own field check keeps them out of a result
                runs = [k for k in range(len(gen.TAG[m]), len(s)) if s[k] in gen.A64SET]
                if runs:
                    q = rng.choice(runs)
                    s = s[:q] + bytes([rng.choice(b"[]^_`@<=>?")]) + s[q + 1:]
                    form = "between-runs-char"
            if gen.cost_units(s, 64) > BUDGET:
                skipped += 1
                continue
            phs = [gen.gen_phrase(rng) for _ in range(nph)]
            cases.append((m, form, s, phs))
    return cases, skipped


def dispatch(item):
    return do_big_cost(item[1]) if item[0] == "big" else do_locale(item[1]) if item[0] == "locale" else do_chunk(item[1])


def do_chunk(chunk):
    acc = common.Acc()
    w = rt.vw(FL)
    setup = [rt.obj_line(0, align=1, fill="f")]
    lines = []
    idx = []
    for ci, (m, form, s, phs) in enumerate(chunk):
        for p in phs:
            lines.append(rt.crypt_line("crypt_rn", 0, p, s))
            idx.append((ci, p))
    rows = rt.run_resilient(w, setup, lines)
    follow = []
    fidx = []
    for (ci, p), r, ln in zip(idx, rows, lines):
        m, form, s, phs = chunk[ci]
        acc.count("evaluations")
        if isinstance(r, Death):
            acc.inconc("worker death %s/%s on %s" % (r.kind(), r.frame(), ln[:100]))
            continue
        if isinstance(r, Timeout) or r is None:
            acc.inconc("timeout")
            continue
        # every result, successful or not, must stay inside the field
        if r.get("nul") != "1":
            acc.violation("%s/no-nul/%s" % (PID, m), "setting=%r: no NUL in the output field" % s,
                          rt.replay_obj(FL, setup + [ln]))
            continue
        if r["r"] == "N":
            acc.count("rejected")
            continue
        h = rt.out_of(r)
        acc.count("successes")
        acc.count("ok/" + m)
        rm = gen.result_method(s, len(p))
        if rm is None:
            acc.violation("%s/unclaimed-setting-hashed/%s" % (PID, m), "setting=%r result=%r" % (s[:100], h[:100]),
                          rt.replay_obj(FL, setup + [ln]))
            continue
        why = gen.wellformed(rm, h)
        if why:
            acc.violation("%s/%s/%s" % (PID, why, m),
                          "setting=%r phrase-len=%d result=%r is not a well-formed %s hash (%s)" % (
                              s[:120], len(p), h[:200], rm, why),
                          rt.replay_obj(FL, setup + [ln]))
            continue
        # same method prefix as the setting
        tag = gen.TAG[rm if rm != "descrypt" else "descrypt"]
        if tag:
            if not h.startswith(tag):
                acc.violation("%s/prefix-changed/%s" % (PID, m), "setting=%r result=%r" % (s, h),
                              rt.replay_obj(FL, setup + [ln]))
        elif h[:2] != s[:2]:
            acc.violation("%s/prefix-changed/%s" % (PID, m), "setting=%r result=%r" % (s, h),
                          rt.replay_obj(FL, setup + [ln]))
        acc.cls((m, form))
        sp = gen.split_hash(rm, h)
        if sp:
            for pos, ch in enumerate(sp[1][:86]):
                acc.sets["digest/" + m].add((pos, ch))
        if len(acc.samples) < 3:
            acc.sample({"method": m, "setting": s.decode("latin1"), "hash": h.decode("latin1")})
        # follow-ups: accepted as a setting, not INVALID, selects the same family as gensalt prefix
        follow.append("checksalt %s" % pool.hx(h))
        follow.append(rt.crypt_line("crypt_rn", 0, p, h))
        follow.append(rt.gensalt_line("rn", h, 0, bytes(range(64)), 64, 192))
        fidx.append((m, rm, s, p, h))
    rows = rt.run_resilient(w, setup, follow) if follow else []
    for k, (m, rm, s, p, h) in enumerate(fidx):
        a, b, c = rows[3 * k:3 * k + 3]
        rl = follow[3 * k:3 * k + 3]
        if not all(isinstance(x, dict) for x in (a, b, c)):
            for x, ln in zip((a, b, c), rl):
                if isinstance(x, Death):
                    rt.death_violation(acc, PID, x, FL, ln, "followup/" + m, setup)
            continue
        acc.count("followups")
        if a["v"] == "1":
            acc.violation("%s/checksalt-invalid/%s" % (PID, m), "crypt_checksalt(%r) = INVALID" % h,
                          rt.replay_obj(FL, [rl[0]]))
        if rt.hash_of(b) is None:
            acc.violation("%s/not-accepted-as-setting/%s" % (PID, m), "crypt(P, %r) fails (errno %s)" % (h, b["e"]),
                          rt.replay_obj(FL, setup + [rl[1]]))
        g = rt.out_of(c) if c["r"] == "O" else None
        if g is None:
            # $2x$ has no generator; every other method accepts count 0 with 64 random bytes
            if gen.classify(h) != "bcrypt_x":
                acc.violation("%s/gensalt-prefix-refused/%s" % (PID, m),
                              "crypt_gensalt_rn(prefix=%r, 0, 64 bytes) fails errno=%s" % (h, c["e"]),
                              rt.replay_obj(FL, [rl[2]]))
        else:
            fam = lambda x: "des" if x in ("descrypt", "bigcrypt") else x
            if fam(gen.classify(g)) != fam(gen.classify(h)):
                acc.violation("%s/gensalt-prefix-family/%s" % (PID, m),
                              "hash %r as gensalt prefix selected %r" % (h, g), rt.replay_obj(FL, [rl[2]]))
    return acc


def do_locale(args):
    """the same requests in a process that has selected a single-byte locale (what login, su, passwd do with
    setlocale (LC_ALL, "")): <ctype.h> classification of the bytes 0xa1..0xff differs there.  Every result must be what
    the "C" locale process returns, and a successful one well-formed."""
    seed, n, locpath = args
    from .. import locale8
    acc = common.Acc()
    rng = rt.rng_for(seed, PID, "locale")
    wl = pool.Worker(rt.PATHS["vw-" + FL], env={"LOCPATH": locpath})
    wc = rt.vw(FL)
    setup_c = [rt.obj_line(0, align=3, fill="r", seed=5)]
    setup_l = ["setlocale " + locale8.NAME] + setup_c
    res, end = wl.run(setup_l[:1], 60)
    if end is not None or res[0].get("set") != "1" or res[0].get("graph_e9") != "1":
        acc.inconc("the single-byte test locale could not be selected: %s" % (res[:1],))
        wl.stop()
        return acc
    lines, meta = [], []
    for i in range(n):
        m = rng.choice(gen.METHODS)
        s, form = gen.gen_valid(rng, m)
        k = rng.random()
        if k < 0.6 and len(s) > 3:
            # an 8-bit byte somewhere behind the tag: letters, punctuation and the no-break space of ISO-8859-1
            q = rng.randrange(min(3, len(s) - 1), len(s))
            s = s[:q] + bytes([rng.choice([0xe9, 0xc0, 0xff, 0xa1, 0xbf, 0xd7, 0xa0, 0x80, 0x9f, rng.randint(0xa1, 0xff)])]) + s[q + 1:]
            form = "8bit"
        elif k < 0.7:
            s, lab = gen.mutate(rng, s, long_ok=False)
            form = "mutated"
        if gen.cost_units(s, 64) > BUDGET:
            continue
        p = gen.gen_phrase(rng)
        e = rng.choice(["crypt_rn", "crypt_r", "crypt_ra", "crypt"])
        lines.append(rt.crypt_line(e, 2 if e == "crypt_ra" else 0, p, s))
        meta.append((m, form, s, p))
        lines.append("checksalt %s" % pool.hx(s))
        meta.append((m, "checksalt", s, None))
    for m in facts.GENSALT_METHODS:
        lines.append(rt.gensalt_line("rn", gen.TAG[m], 0, bytes(range(160, 224)), 64, 192))
        meta.append((m, "gensalt", gen.TAG[m], None))
    rows_l = rt.run_resilient(wl, setup_l + ["raobj 2 -1 0"], lines)
    rows_c = rt.run_resilient(wc, setup_c + ["raobj 2 -1 0"], lines)
    wl.stop()
    for (m, form, s, p), a, b, ln in zip(meta, rows_l, rows_c, lines):
        acc.count("evaluations")
        if isinstance(a, Death):
            rt.death_violation(acc, PID, a, FL, ln, "single-byte-locale/" + m, setup_l)
            continue
        if not isinstance(a, dict) or not isinstance(b, dict):
            acc.inconc("timeout/death in the locale comparison")
            continue
        acc.count("locale_comparisons")
        acc.cls(("locale", m, form, a.get("r", a.get("v"))))
        ka = (a.get("r"), a.get("o"), a.get("v"), a.get("e") if a.get("r") == "N" else None)
        kb = (b.get("r"), b.get("o"), b.get("v"), b.get("e") if b.get("r") == "N" else None)
        if ka != kb:
            acc.violation("%s/locale-dependent/%s" % (PID, m),
                          "%s: in a process that selected a single-byte locale the call gives %s, in the C locale %s; "
                          "setting=%r" % (form, ka, kb, s[:100]), rt.replay_obj(FL, setup_l + [ln]))
            continue
        if form not in ("checksalt", "gensalt"):
            h = rt.hash_of(a)
            if h is not None and gen.has_bad_chars(h):
                acc.violation("%s/bad-char/%s" % (PID, m), "single-byte locale: setting=%r result=%r" % (s[:100], h[:200]),
                              rt.replay_obj(FL, setup_l + [ln]))
    return acc


def big_cost_cases(tier):
    """the widest cost spellings the methods document: the result field has to hold them (executed on the -O2
    build, one process each; tens of seconds of hashing in the quick tier, minutes in the thorough one)"""
    c = [("sha256crypt", b"$5$rounds=100000000$ab"), ("bsdicrypt", b"_zzzzsalt"), ("sha512crypt", b"$6$rounds=30000000$abcdefghijklmnop")]
    if tier == "thorough":
        c += [("sha512crypt", b"$6$rounds=100000000$ab"), ("sha256crypt", b"$5$rounds=999999999$abcdefghijklmnop"),
              ("sha1crypt", b"$sha1$50000000$" + b"s" * 64), ("sunmd5", b"$md5,rounds=10000000$saltsalt")]
    return c


def do_big_cost(item):
    m, s = item
    acc = common.Acc()
    w = pool.Worker(rt.PATHS["vw-opt"])
    setup = [rt.obj_line(0, align=1, fill="f")]
    ln = rt.crypt_line("crypt_rn", 0, b"", s)
    res, end = w.run(setup + [ln, "checksalt %s" % pool.hx(s)], 3000)
    w.stop()
    if end is not None:
        acc.inconc("big-cost case %r did not finish (%s)" % (s, type(end).__name__))
        return acc
    r = res[1]
    acc.count("evaluations")
    acc.count("big_cost_hashes")
    acc.cls((m, "widest-cost"))
    h = rt.hash_of(r)
    if r.get("nul") != "1":
        acc.violation("%s/no-nul/%s" % (PID, m), "setting=%r: no NUL in the output field" % s, rt.replay_obj("opt", setup + [ln]))
    elif h is None:
        acc.violation("%s/widest-cost-refused/%s" % (PID, m), "the documented-valid setting %r is refused (errno %s)" % (s, r.get("e")),
                      rt.replay_obj("opt", setup + [ln]))
    else:
        why = gen.wellformed(m, h)
        if why or not h.startswith(s.rstrip(b"$")):
            acc.violation("%s/%s/%s" % (PID, why or "setting-not-kept", m),
                          "setting=%r gives %r (%s)" % (s, h, why or "the result does not start with the setting"),
                          rt.replay_obj("opt", setup + [ln]))
    return acc


def run(tier):
    run_ = common.Run(PID, tier, "exploration")
    rt.prepare([FL, "opt"])
    cases, skipped = make_cases(run_.seed, tier)
    work = [("chunk", c) for c in pool.chunks(cases, 25)]
    # the long-running cases first so that they overlap with everything else
    from .. import locale8
    locpath = locale8.ensure()
    if locpath is None:
        run_.acc.inconc("localedef could not build the single-byte test locale")
    else:
        work += [("locale", (run_.seed * 100 + i, 150 if tier == "quick" else 1500, locpath)) for i in range(4 if tier == "quick" else 16)]
    for acc in pool.pmap(dispatch, [("big", c) for c in big_cost_cases(tier)] + work):
        run_.merge(acc)
    a = run_.acc
    dig = {}
    for k, v in a.sets.items():
        m = k.split("/")[1]
        per_pos = {}
        for pos, ch in v:
            per_pos.setdefault(pos, set()).add(ch)
        if per_pos:
            dig[m] = {"positions": len(per_pos), "min_distinct_chars_at_a_position": min(len(x) for x in per_pos.values()),
                      "max_distinct_chars_at_a_position": max(len(x) for x in per_pos.values())}
    cov = {
        "rule": "case = (grammar-generated accepted-form setting incl. empty / maximal / over-long / '$'-containing "
                "salts, several phrases); every successful result is matched against the method's structural grammar, "
                "character set, length, tag; then fed to crypt_checksalt, to crypt as a setting and to crypt_gensalt_rn "
                "as a prefix; distinct = (method, setting-form class) cells with a judged success",
        "successes_judged": int(a.n.get("successes", 0)),
        "followup_triples": int(a.n.get("followups", 0)),
        "calls_compared_between_single_byte_locale_and_C_locale": int(a.n.get("locale_comparisons", 0)),
        "rejected_by_library": int(a.n.get("rejected", 0)),
        "digest_alphabet_coverage": dig,
        "skipped_expensive": skipped,
        "flavour": FL,
    }
    return run_.finish(cov, assumptions=[
        "the grammar is structural (crypt accepts salts crypt.5's regexes do not list)",
        "shape violations that need a digest value not sampled are invisible; the coverage table shows what was seen"],
        min_conclusive=1500, conclusive=int(a.n.get("successes", 0)),
        required={m: a.n.get("ok/" + m, 0) for m in gen.METHODS})
