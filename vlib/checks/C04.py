"""C04 - memory safety and write confinement (DESIGN §4 C04).

Sanitizer builds of the library (ASan+UBSan with fatal reports, MSan with
uninitialised data objects) driven with exact-size argument blocks, canaries
in the application-owned fields, all object alignments and hostile integer
arguments.  A worker death, a damaged canary, a stray pointer, a missing NUL
or a garbage-dependent result is a violation."""
import os
import re
import subprocess

from .. import build, common, facts, gen, pool, rt
from ..pool import Death, Timeout

PID = "C04"
BUDGET = 25000
INT_MIN = -2147483648
CD = rt.CD_SIZE
RN_SIZES = [INT_MIN, -1, 0, 1, 2, 3, 383, 384, CD - 1, CD, CD + 1, 65536]
LONG_PHRASES = [512, 513, 1000, 4096]


def gen_setting(rng, long_ok=True):
    k = rng.random()
    m = rng.choice(gen.METHODS)
    if k < 0.30:
        s, f = gen.gen_valid(rng, m)
        return m, s, "valid"
    if k < 0.80:
        s, f = gen.gen_valid(rng, m)
        s, lab = gen.mutate(rng, s, long_ok)
        if rng.random() < 0.2:
            s, lab2 = gen.mutate(rng, s, long_ok)
            lab += "+" + lab2
        return m, s, "mut:" + lab.split("-")[0]
    s, f = gen.random_setting(rng)
    return gen.classify(s) or "none", s, f


def crypt_cases(seed, n, flavour):
    cases = []
    skipped = 0
    for i in range(n):
        rng = rt.rng_for(seed, PID, flavour, "crypt", i)
        m, s, lab = gen_setting(rng)
        if rng.random() < 0.08:
            p = gen.gen_phrase(rng, rng.choice(LONG_PHRASES))
        else:
            p = gen.gen_phrase(rng)
        if gen.cost_units(s, len(p)) > BUDGET:
            skipped += 1
            continue
        entry = rng.choice(["crypt_rn", "crypt_rn", "crypt_r", "crypt_ra", "crypt"])
        case = {"k": "crypt", "entry": entry, "p": p, "s": s, "m": m, "lab": lab,
                "align": rng.randrange(16), "fill": rng.choice("zfr"),
                "seed": rng.getrandbits(30),
                "mode": "i" if rng.random() < 0.25 else "s",
                "size": "="}
        if entry == "crypt_rn" and rng.random() < 0.35:
            case["size"] = rng.choice(RN_SIZES)
        if entry == "crypt_ra":
            bs = rng.choice([-1, -1, 1, 100, 383, CD - 1, CD, CD + 5, 40000])
            rs = 0 if bs < 0 else rng.choice([bs, bs, 0, -1, INT_MIN, min(bs, 5)])
            case["ra"] = (bs, rs)
        if rng.random() < 0.03:
            if rng.random() < 0.5:
                case["p"] = None
            else:
                case["s"] = None
        cases.append(case)
    # every salt length around the SHA-256 / SHA-1 block boundaries for the methods whose salt is unbounded
    # or long ($7$ raw salt, $y$/$gy$ decoded salt up to 64 bytes, $sha1$ up to 64 characters)
    for n_ in list(range(48, 66)) + list(range(112, 130)) + [183, 247]:
        sl = (b"SaltChars./0123456789" * 13)[:n_]
        fixed = [("scrypt", b"$7$5/..../...." + sl)]
        if n_ <= 64:
            raw = bytes((i * 37 + n_) & 0xFF for i in range(n_))
            fixed += [("yescrypt", b"$y$j5.$" + gen.yes_encode64(raw)), ("yescrypt", b"$y$.5/$" + gen.yes_encode64(raw)),
                      ("gost_yescrypt", b"$gy$j5.$" + gen.yes_encode64(raw)), ("sha1crypt", b"$sha1$20$" + sl)]
        for m, s in fixed:
            rng = rt.rng_for(seed, PID, flavour, "saltlen", n_, m)
            cases.append({"k": "crypt", "entry": rng.choice(["crypt_rn", "crypt_r", "crypt_ra"]), "p": gen.gen_phrase(rng, rng.choice([3, 20, 70])),
                          "s": s, "m": m, "lab": "saltlen%d" % (n_ % 64), "align": rng.randrange(16), "fill": rng.choice("zfr"),
                          "seed": rng.getrandbits(30), "mode": "s", "size": "="})
            if cases[-1]["entry"] == "crypt_ra":
                cases[-1]["ra"] = (-1, 0)
    return cases, skipped


def gensalt_cases(seed, n, flavour):
    cases = []
    for i in range(n):
        rng = rt.rng_for(seed, PID, flavour, "gensalt", i)
        m = rng.choice(gen.METHODS + [None])
        k = rng.random()
        if m is None:
            prefix = None
        elif k < 0.5:
            prefix = gen.TAG[m]
        elif k < 0.7:
            prefix = gen.gen_valid(rng, m)[0]
        elif k < 0.85:
            prefix = gen.mutate(rng, gen.gen_valid(rng, m)[0])[0]
        else:
            prefix = gen.random_setting(rng)[0]
        fm = m or "yescrypt"
        count = rng.choice(facts.interesting_counts(fm) + [rng.getrandbits(64), rng.getrandbits(20)])
        nr = rng.choice([INT_MIN, -1, 0, 1, 2, 3, 4, 7, 8, 9, 12, 15, 16, 17, 20, 32, 63, 64, 65,
                         70, 255, 256, 257, 65536, rng.randint(0, 70)])
        entry = rng.choice(["rn", "rn", "ra", "st"])
        osz = 192
        if entry == "rn":
            osz = rng.choice([INT_MIN, -1, 0, 1, 2, 3, 9, 29, 30, 100, 191, 192, 193, 1000, 65536,
                              rng.randint(0, 200)])
        null_rb = rng.random() < 0.1
        cases.append({"k": "gensalt", "entry": entry, "prefix": prefix, "count": count,
                      "nr": 0 if null_rb else nr, "rb": None if null_rb else
                      facts.rbytes_pattern(rng.choice(["rnd", "ff", "zero"]), nr, i),
                      "osz": osz, "m": m or "NULL"})
    return cases


def case_lines(c, slot=0, alt=False):
    """worker lines for one case; alt=True: the same request on an object
    with different garbage and alignment (results must agree)."""
    if c["k"] == "crypt":
        entry = c["entry"]
        fill = c["fill"] if not alt else {"z": "r", "f": "z", "r": "f"}[c["fill"]]
        align = c["align"] if not alt else (c["align"] + 5) & 15
        lines = []
        size = c["size"]
        if entry == "crypt_ra":
            bs, rs = c["ra"]
            lines.append("raobj %d %d %d" % (slot, bs, rs))
        elif entry != "crypt":
            osz = CD
            if size != "=":
                osz = max(size, 0)
            lines.append(rt.obj_line(slot, osz, align, fill, c["seed"] + (7 if alt else 0)))
        lines.append(rt.crypt_line(entry, slot, c["p"], c["s"], size, c["mode"]))
        return lines
    if c["k"] == "gensalt":
        return [rt.gensalt_line(c["entry"], c["prefix"], c["count"], c["rb"], c["nr"], c["osz"])]
    return ["checksalt %s" % pool.hx(c["s"])]


def judge_crypt(acc, c, r, flavour, lines):
    m = c["m"]
    entry = c["entry"]

    def viol(kind, detail):
        acc.violation("%s/%s/%s/%s" % (PID, kind, m, entry),
                      "%s %s setting=%r phrase-len=%s: %s" % (
                          flavour, c["lab"], (c["s"] or b"(null)")[:120],
                          len(c["p"]) if c["p"] is not None else "null", detail),
                      rt.replay_obj(flavour, lines))
    rr = r.get("r", "N")
    if entry in ("crypt_r", "crypt_rn", "crypt_ra") and rr not in ("N", "O"):
        viol("stray-pointer", "returned pointer at offset %s of the data object" % rr[1:])
    if r.get("nul") == "0":
        viol("no-nul", "no NUL inside the output field")
    if r.get("can") == "0":
        viol("canary", "application-owned setting/input fields were modified")
    if r.get("mu", "-1") not in ("-1",):
        viol("uninit-output", "result byte %s is uninitialised memory" % r.get("mu"))
    o = rt.out_of(r)
    if rr != "N" and o is not None and len(o) >= 384:
        viol("too-long", "result of %d characters" % len(o))
    acc.cls((m, entry, c["lab"], "ok" if rt.hash_of(r) else "fail"))
    if rt.hash_of(r):
        acc.count("crypt_success")


def do_chunk(args):
    flavour, chunk = args
    acc = common.Acc()
    w = rt.vw(flavour)
    for c in chunk:
        acc.count("evaluations")
        l1 = case_lines(c, 0)
        l2 = case_lines(c, 1, alt=True) if c["k"] == "crypt" else []
        if flavour == "msan" and c["k"] == "crypt":
            # uninitialised objects: the strongest "does not depend on garbage" monitor
            l1 = [x.replace(" z ", " n ").replace(" f ", " n ").replace(" r ", " n ")
                  if x.startswith("obj ") else x for x in l1]
        lines = l1 + l2
        res, end = w.run(lines, timeout=150)
        if isinstance(end, Death):
            what = c["m"] + "/" + (c["entry"] if c["k"] == "crypt" else "gensalt-" + c["entry"])
            if c["k"] == "gensalt" and c["nr"] < 0:
                what = c["m"] + "/gensalt-negative-nrbytes"
            rt.death_violation(acc, PID, end, flavour, lines[end.line], what, lines[:end.line])
            acc.count("deaths")
            continue
        if isinstance(end, Timeout):
            acc.inconc("timeout: %s" % lines[end.line][:160])
            continue
        if c["k"] == "crypt":
            r1 = res[len(l1) - 1]
            judge_crypt(acc, c, r1, flavour, l1)
            acc.count("crypt_calls")
            if l2:
                r2 = res[-1]
                judge_crypt(acc, c, r2, flavour, l2)
                acc.count("crypt_calls")
                a = (r1.get("r"), r1.get("o"))
                b = (r2.get("r"), r2.get("o"))
                if a != b:
                    acc.violation("%s/garbage-dependent/%s/%s" % (PID, c["m"], c["entry"]),
                                  "same request, different object contents/alignment: %s vs %s; setting=%r" % (
                                      a, b, (c["s"] or b"")[:100]),
                                  rt.replay_obj(flavour, lines))
                else:
                    acc.count("garbage_pairs_equal")
            if len(acc.samples) < 2:
                acc.sample({"entry": c["entry"], "setting": repr((c["s"] or b"")[:80]), "class": c["lab"],
                            "phrase_len": len(c["p"]) if c["p"] is not None else None,
                            "size": c["size"], "align": c["align"], "result": r1.get("r"), "errno": r1.get("e")})
        elif c["k"] == "gensalt":
            r = res[0]
            acc.count("gensalt_calls")
            acc.cls((c["m"], "gensalt", c["entry"], min(max(c["nr"], -1), 70), r["r"]))
            o = rt.out_of(r)
            if r["r"] == "X":
                acc.violation("%s/stray-pointer/%s/gensalt" % (PID, c["m"]), lines[0], rt.replay_obj(flavour, lines))
            if r["r"] in ("O", "A", "S") and (r.get("nul") != "1" or o is None or len(o) >= 192):
                acc.violation("%s/gensalt-no-nul/%s" % (PID, c["m"]), "%s -> %s" % (lines[0], r),
                              rt.replay_obj(flavour, lines))
        else:
            acc.count("checksalt_calls")
            acc.cls(("checksalt", res[0]["v"], len(c["s"]) > 100))
    return acc


def memcheck_sample(run_, seed, n, exe=None, only=None):
    """valgrind memcheck over the -O2 build for a sample (thorough tier); with exe/only: another build, the named
    methods only (the C library's own allocator places blocks differently from ASan's: 16-byte alignment)"""
    exe = exe or rt.TREE.program("opt", "vw.c")
    cases, _ = crypt_cases(seed + 991, n, "memcheck")
    if only:
        cases = [c for c in cases if c["m"] in only and c["lab"] in ("valid", "saltlen0") or c["lab"].startswith("saltlen")][:n // 8]
    else:
        cases += gensalt_cases(seed + 991, n // 3, "memcheck")
    lines = []
    for c in cases:
        if c["k"] == "crypt" and (c["size"] != "=" or c["entry"] == "crypt_ra"):
            continue
        lines += case_lines(c, 0)
    acc = common.Acc()
    parts = pool.chunks(lines, max(1, len(lines) // 16))
    procs = []
    for part in parts:
        p = subprocess.Popen(["valgrind", "-q", "--error-exitcode=9", "--track-origins=yes",
                              "--errors-for-leak-kinds=none", exe],
                             stdin=subprocess.PIPE, stdout=subprocess.PIPE, stderr=subprocess.PIPE)
        procs.append((p, part))
    import threading
    outs = {}

    def feed(p, part, i):
        try:
            outs[i] = p.communicate(("\n".join(part) + "\nquit\n").encode(), timeout=1500)
        except subprocess.TimeoutExpired:
            p.kill()
            outs[i] = None
    ths = [threading.Thread(target=feed, args=(p, part, i)) for i, (p, part) in enumerate(procs)]
    for t in ths:
        t.start()
    for t in ths:
        t.join()
    for i, (p, part) in enumerate(procs):
        if outs.get(i) is None:
            acc.inconc("memcheck batch timed out")
            continue
        out, err = outs[i]
        acc.count("memcheck_calls", out.count(b"\nok") + (1 if out.startswith(b"ok") else 0))
        err = err.decode("utf-8", "replace")
        if p.returncode == 9 or "Invalid " in err or "uninitialised" in err:
            import re
            fr = re.findall(r"(?:at|by) 0x[0-9A-F]+: (\S+) \((\S+?):\d+\)", err)
            frame = next((f for f, loc in fr if not loc.startswith("vw.c") and not f.startswith("mem")), "?")
            kind = "uninitialised" if "uninitialised" in err else "invalid-access"
            acc.violation("%s/memcheck:%s/%s" % (PID, kind, frame), err[:1500],
                          {"flavour": "opt", "lines": part[:400], "note": "run under valgrind memcheck"})
        elif p.returncode != 0:
            acc.inconc("memcheck batch exit %s: %s" % (p.returncode, err[-300:]))
    run_.merge(acc)


FUZZ_ENV = {"ASAN_OPTIONS": "detect_leaks=0:allocator_may_return_null=1:abort_on_error=0",
            "UBSAN_OPTIONS": "print_stacktrace=1"}


def fuzz_exe(tree):
    return tree.program("fuzz", "vfuzz.c", name="vfuzz", wrap=False, libs="-Wl,--wrap=mmap")


def fuzz_seed_corpus(d, seed):
    """one small file per (entry selector, method): byte 0 = selector, setting, NUL, phrase"""
    n = 0
    rng = rt.rng_for(seed, PID, "fuzz-corpus")
    for m in gen.METHODS:
        for i in range(6):
            s, _ = gen.gen_valid(rng, m)
            if gen.cost_units(s, 8) > 3000:
                continue
            for sel in (0, 1, 2, 3, 4, 7):
                with open(os.path.join(d, "s%04d" % n), "wb") as f:
                    f.write(bytes([sel]) + s + b"\0" + gen.gen_phrase(rng, rng.choice([0, 5, 9, 20])).replace(b"\0", b"x"))
                n += 1
    # settings and phrases near the field sizes (384, 512): length is the hard thing for mutation to find
    for m in gen.METHODS:
        s, _ = gen.gen_valid(rng, m)
        if gen.cost_units(s, 8) > 3000:
            continue
        for extra in (60, 200, 330, 372, 500):
            for sel in (0, 1):
                with open(os.path.join(d, "l%04d" % n), "wb") as f:
                    f.write(bytes([sel]) + s + gen.rsalt(rng, extra) + b"\0pw")
                n += 1
        with open(os.path.join(d, "l%04d" % n), "wb") as f:
            f.write(bytes([0]) + s + b"\0" + b"p" * rng.choice([255, 256, 511, 512, 600]))
        n += 1
    for m in facts.GENSALT_METHODS:
        for i in range(3):
            with open(os.path.join(d, "g%04d" % n), "wb") as f:
                f.write(bytes([3]) + gen.TAG[m] + b"\0" + bytes([rng.randrange(1, 256) for _ in range(rng.choice([4, 20, 70]))]))
            n += 1
    return n


def fuzz_job(args):
    exe, seeds, outdir, j, seed, runs = args
    cdir = os.path.join(outdir, "c%d" % j)
    os.makedirs(cdir, exist_ok=True)
    pre = os.path.join(outdir, "art%d-" % j)
    cmd = [exe, "-runs=%d" % runs, "-seed=%d" % (seed * 1000 + j + 1), "-max_len=700", "-len_control=0", "-timeout=30", "-rss_limit_mb=4096",
           "-artifact_prefix=" + pre, "-print_final_stats=1", cdir, seeds]
    try:
        p = subprocess.run(cmd, stdout=subprocess.DEVNULL, stderr=subprocess.PIPE, env=dict(os.environ, **FUZZ_ENV),
                           timeout=max(600, runs // 20))
        err, rc = p.stderr.decode("utf-8", "replace"), p.returncode
    except subprocess.TimeoutExpired as e:
        err, rc = (e.stderr or b"").decode("utf-8", "replace"), "watchdog"
    st = {}
    for k in ("number_of_executed_units", "new_units_added"):
        m = re.search(r"stat::%s:\s+(\d+)" % k, err)
        st[k] = int(m.group(1)) if m else 0
    cov = re.findall(r"cov: (\d+) ft: (\d+)", err)
    st["cov"], st["ft"] = (int(cov[-1][0]), int(cov[-1][1])) if cov else (0, 0)
    arts = []
    for f in sorted(os.listdir(outdir)):
        if f.startswith("art%d-" % j):
            with open(os.path.join(outdir, f), "rb") as fh:
                arts.append((f[len("art%d-" % j):], fh.read()))
    return j, rc, st, arts, err[-6000:], " ".join(cmd)


def fuzz_stage(run_, tier):
    """coverage-guided exploration (libFuzzer) of crypt_rn/crypt_r/crypt_checksalt/crypt_gensalt_rn under
    ASan+UBSan with the harness's own monitors; the hash cores are not instrumented (speed), the parsers are"""
    tree = rt.TREE
    acc = common.Acc()
    try:
        exe = fuzz_exe(tree)
    except build.BuildError as e:
        acc.inconc("fuzz harness does not build: %s" % str(e)[-300:])
        run_.merge(acc)
        return
    d = tree.scratch("fuzz")
    try:
        seeds = os.path.join(d, "seeds")
        os.makedirs(seeds)
        nseed = fuzz_seed_corpus(seeds, run_.seed)
        jobs, runs = (16, 5000) if tier == "quick" else (16, 150000)
        if os.environ.get("VERIF_C04_FUZZ_RUNS"):
            runs = int(os.environ["VERIF_C04_FUZZ_RUNS"])
        res = pool.pmap(fuzz_job, [(exe, seeds, d, j, run_.seed, runs) for j in range(jobs)])
        for j, rc, st, arts, err, cmd in res:
            acc.count("fuzz_execs", st["number_of_executed_units"])
            acc.count("evaluations", st["number_of_executed_units"])
            acc.count("fuzz_new_units", st["new_units_added"])
            acc.n["fuzz_cov_edges"] = max(acc.n.get("fuzz_cov_edges", 0), st["cov"])
            acc.n["fuzz_features"] = max(acc.n.get("fuzz_features", 0), st["ft"])
            if st["number_of_executed_units"]:
                acc.cls(("fuzz", "job-ran"))
            crashed = False
            for name, blob in arts:
                if name.startswith(("timeout", "slow-unit", "oom")):
                    acc.inconc("fuzz job %d: %s artifact (%d bytes) - cost, not a verdict" % (j, name.split("-")[0], len(blob)))
                    continue
                crashed = True
                dth = pool.Death(1, err, 0)
                m = re.search(r"VFUZZ-MONITOR: ([^(\n]+)", err)
                kind = ("monitor:" + re.sub(r"[^a-z0-9]+", "-", m.group(1).strip().lower())[:60]) if m else dth.kind()
                acc.violation("%s/fuzz/%s/%s" % (PID, kind, "harness" if m else dth.frame()),
                              "libFuzzer input %s (%d bytes, hex %s) :: %s" % (name, len(blob), blob[:120].hex(),
                                                                             err[-1200:].replace("\n", " | ")),
                              {"fuzz_input_hex": blob.hex(), "cmd": "<vfuzz built by tree.program('fuzz','vfuzz.c')> <file>",
                               "note": err[-3000:]})
            if rc not in (0,) and not crashed and not arts:
                acc.inconc("fuzz job %d ended with %s and left no artifact: %s" % (j, rc, err[-200:]))
        acc.n["fuzz_seed_files"] = nseed
    finally:
        import shutil
        shutil.rmtree(d, ignore_errors=True)
    run_.merge(acc)


def run(tier):
    run_ = common.Run(PID, tier, "exploration")
    rt.prepare(["asan", "msan"] + (["opt"] if tier == "thorough" else []))
    na, nm, ng = (14000, 4000, 6000) if tier == "quick" else (160000, 40000, 60000)
    work = []
    skipped = 0
    if os.environ.get("VERIF_C04_ONLY_FUZZ"):       # development aid: judge the fuzz stage alone
        na = nm = ng = 40
    for fl, n in (("asan", na), ("msan", nm)):
        cs, sk = crypt_cases(run_.seed, n, fl)
        skipped += sk
        cs += gensalt_cases(run_.seed, ng if fl == "asan" else ng // 4, fl)
        rng = rt.rng_for(run_.seed, PID, fl, "checksalt")
        for i in range(ng // 4):
            cs.append({"k": "checksalt", "s": gen_setting(rng)[1], "m": "checksalt"})
        rng.shuffle(cs)
        work += [(fl, ch) for ch in pool.chunks(cs, 50)]
    # a C library without explicit_bzero & co.: the library's own util-xbzero.c is compiled in and every wipe
    # (objects at alignments 0..15, heap blocks, stack buffers) goes through it, under ASan + UBSan
    from . import C19
    import shutil
    none = {"HAVE_EXPLICIT_BZERO": None, "HAVE_MEMSET_S": None, "HAVE_EXPLICIT_MEMSET": None, "HAVE_MEMSET_EXPLICIT": None}
    name, en, own_exe, err, _ = C19.build_config(("c04-own-bzero-asan", list(gen.METHODS), none, build.FLAVOURS["asan"][1]))
    if own_exe is None:
        run_.acc.inconc("ASan build with the library's own explicit_bzero failed: " + err[-300:])
    else:
        rt.PATHS["vw-ownbz-asan"] = own_exe
        cs, sk = crypt_cases(run_.seed + 17, na // 5, "ownbz-asan")
        cs += gensalt_cases(run_.seed + 17, ng // 10, "ownbz-asan")
        work += [("ownbz-asan", ch) for ch in pool.chunks(cs, 50)]
    # a target without mmap (the compiler does not predefine __unix__: MinGW-like): the yescrypt family takes its
    # region from malloc and aligns inside the block
    name, en, nm_exe, err, _ = C19.build_config(("c04-no-mmap-asan", list(gen.METHODS), None, build.FLAVOURS["asan"][1] + " -U__unix__"))
    if nm_exe is None:
        run_.acc.inconc("ASan build without mmap failed: " + err[-300:])
    else:
        rt.PATHS["vw-nommap-asan"] = nm_exe
        cs, sk = crypt_cases(run_.seed + 23, na // 4, "nommap-asan")
        cs = [c for c in cs if c["m"] in ("yescrypt", "gost_yescrypt", "scrypt")] + cs[:200]
        work += [("nommap-asan", ch) for ch in pool.chunks(cs, 50)]
    try:
        for acc in pool.pmap(do_chunk, work):
            run_.merge(acc)
    finally:
        if own_exe:
            shutil.rmtree(os.path.dirname(own_exe), ignore_errors=True)
        if nm_exe:
            shutil.rmtree(os.path.dirname(nm_exe), ignore_errors=True)
    if tier == "thorough":
        memcheck_sample(run_, run_.seed, 3000)
    # the malloc-backed region code (no mmap) under memcheck: glibc's blocks are 16-byte aligned, so the 64-byte
    # alignment inside the block leaves a slack that ASan's 64-byte-aligned large blocks never show
    name, en, nm2, err, _ = C19.build_config(("c04-no-mmap-opt", list(gen.METHODS), None, "-O2 -g -U__unix__"))
    if nm2 is None:
        run_.acc.inconc("-O2 build without mmap failed: " + err[-300:])
    else:
        try:
            memcheck_sample(run_, run_.seed + 3, 800 if tier == "quick" else 6000, nm2, ("yescrypt", "gost_yescrypt", "scrypt"))
        finally:
            shutil.rmtree(os.path.dirname(nm2), ignore_errors=True)
    fuzz_stage(run_, tier)
    a = run_.acc
    cov = {
        "rule": "case = (entry point, phrase 0..4096 bytes, setting: valid / field-mutated (stretched salt runs up to "
                "40000, truncations, byte edits, '$' edits, bad characters) / random, size argument class, alignment "
                "0..15, object fill, argument placement) executed twice on differently filled and aligned objects; "
                "gensalt cases over count/nrbytes/output_size extremes; distinct = (method, entry, setting class, "
                "outcome) cells",
        "crypt_calls": int(a.n.get("crypt_calls", 0)),
        "crypt_successes": int(a.n.get("crypt_success", 0)),
        "gensalt_calls": int(a.n.get("gensalt_calls", 0)),
        "checksalt_calls": int(a.n.get("checksalt_calls", 0)),
        "garbage_pairs_equal": int(a.n.get("garbage_pairs_equal", 0)),
        "memcheck_calls": int(a.n.get("memcheck_calls", 0)),
        "sanitizer_or_signal_deaths": int(a.n.get("deaths", 0)),
        "skipped_expensive": skipped,
        "libfuzzer": {"executions": int(a.n.get("fuzz_execs", 0)), "seed_files": int(a.n.get("fuzz_seed_files", 0)),
                      "new_corpus_units": int(a.n.get("fuzz_new_units", 0)),
                      "edges_covered_in_instrumented_code": int(a.n.get("fuzz_cov_edges", 0)),
                      "features": int(a.n.get("fuzz_features", 0)),
                      "note": "clang-14 -fsanitize=fuzzer,address,undefined; crypt*.c, util*.c and the API layer "
                              "instrumented, alg-*.c at -O2 uninstrumented; monitors: returned pointer, NUL in output, "
                              "canaries in setting/input, unsafe result characters, same result on a differently filled "
                              "object, round trip, generated setting not INVALID"},
        "flavours": ["asan (gcc address+undefined, fatal)", "msan (clang-14, origins, uninitialised objects)"] +
                    (["memcheck on -O2"] if tier == "thorough" else []),
    }
    return run_.finish(cov, assumptions=[
        "red-zone tools miss intra-object overflows that stay inside output/internal; the canary covers "
        "setting/input only",
        "a size or length argument that overstates the caller's real buffer is a caller error and never generated"],
        min_conclusive=5000)
