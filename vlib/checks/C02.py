"""C02 - hashes equal the published algorithms (DESIGN §4 C02).

Differential oracle: every successful result of the tree (at -O2, the level
users run, and again under ASan) is compared byte for byte with (a) the
released libxcrypt 4.4.33 binary in a separate process and (b) an independent
reference model (Python on OpenSSL/nettle/libgcrypt primitives, bit-level DES)
where the method has one."""
from .. import common, gen, pool, ref, rt
from ..pool import Death, Timeout

PID = "C02"
A64 = gen.A64


def salt(rng, n, alphabet=gen.A64):
    return gen.rsalt(rng, n, alphabet)


def gen_case(rng, m, tier):
    """(setting, class label, python-model seconds estimate)"""
    r = rng
    thorough = tier == "thorough"
    edge2 = r.choice([b"..", b"./", b"/.", b"zz", b"z.", b".z"]) if r.random() < 0.12 else None   # salt value 0 and extremes
    if m == "descrypt":
        return (edge2 or salt(r, 2)) + r.choice([b"", salt(r, 11)]), "des" + ("/edge" if edge2 else ""), 0.004
    if m == "bigcrypt":
        return (edge2 or salt(r, 2)) + salt(r, r.choice([12, 22, 60])), "big" + ("/edge" if edge2 else ""), 0.03
    if m == "bsdicrypt":
        c = r.choice([1, 2, 3, 7, 25, 100, 725, 999, 4095, r.randint(1, 4095)] + ([2 ** 18 + 1] if thorough and r.random() < 0.05 else []))
        return b"_" + gen.enc64_le(c, 4) + (b"...." if r.random() < 0.06 else salt(r, 4)) + r.choice([b"", salt(r, 11)]), "bsdi/c%d" % min(c.bit_length(), 12), c * 7e-5 + 0.002
    if m == "md5crypt":
        n = r.choice(list(range(0, 9)) + [9, 12, 20])
        return b"$1$" + salt(r, n) + r.choice([b"", b"$", b"$" + salt(r, 22)]), "md5/s%d" % min(n, 9), 0.004
    if m in ("sha256crypt", "sha512crypt"):
        rk = r.choice([None, None, 1000, 1001, 4999, 5000, 5001, 9999, 10000, r.randint(1000, 20000)])
        n = r.choice(list(range(0, 17)) + [17, 20, 40])
        rs = b"" if rk is None else b"rounds=%d$" % rk
        s = gen.TAG[m] + rs + salt(r, n) + r.choice([b"", b"$", b"$" + salt(r, 43)])
        return s, "%s/r%s/s%d" % (m[:6], "d" if rk is None else min(rk // 1000, 11), min(n, 17)), (rk or 5000) * 6e-6
    if m == "sha1crypt":
        it = r.choice([1, 2, 3, 10, 100, 999, 2000, r.randint(1, 2000)])
        n = r.choice(list(range(1, 65)))
        return b"$sha1$%d$" % it + salt(r, n) + r.choice([b"", b"$", b"$" + salt(r, 28)]), \
            "sha1/i%d/s%d" % (min(it.bit_length(), 11), n // 8), it * 5e-6 + 0.001
    if m == "sunmd5":
        rk = r.choice([None, None, 1, 2, 10, 100, 999, 2000, r.randint(1, 2000)])
        if r.random() < 0.05:
            # what crypt_gensalt hands out (32768..98303) and the places where the decimal round number grows a digit
            rk = r.choice([5903, 5904, 5905, 32768, 65535, 95903, 95904, 95905, 98303, 100000, r.randint(32768, 98303)])
        n = r.choice([0, 1, 4, 7, 8, 9, 16, 40])
        sep = r.choice([b"$", b","])
        rs = b"" if rk is None else b"rounds=%d$" % rk
        t = r.choice([b"", b"$", b"$$", b"$" + salt(r, 22), b"$$" + salt(r, 22)])
        return b"$md5" + sep + rs + salt(r, n) + t, "sunmd5/%s/r%s/s%d/t%d" % (
            "c" if sep == b"," else "d", "d" if rk is None else min(rk.bit_length(), 11), min(n, 9), len(t) if len(t) < 3 else 3), \
            (4096 + (rk or 0)) * 1e-5
    if m == "nt":
        return b"$3$" + r.choice([b"", b"$", b"$" + salt(r, 32, gen.HEXL)]), "nt", 0.001
    if m.startswith("bcrypt"):
        c = r.choice([4, 4, 5, 5, 6] + ([7] if thorough else []))
        raw = bytes(r.getrandbits(8) for _ in range(16))
        return gen.TAG[m] + b"%02d$" % c + gen.bf_encode(raw)[:22] + r.choice([b"", salt(r, 31, gen.BF64)]), \
            "%s/c%d" % (m, c), 0.001
    if m == "scrypt":
        nl = r.choice(list(range(2, 11)))
        rr = r.choice(list(range(1, 9)))
        p = r.choice([1, 1, 2, 3])
        n = r.choice([0, 1, 8, 16, 22, 43, 86]) if r.random() < 0.5 else r.randint(0, 130)
        sl = salt(r, n)
        dollar = n >= 3 and r.random() < 0.25      # scrypt salts may contain '$'
        if dollar:
            i = r.randint(1, n - 2)
            sl = sl[:i] + b"$" + sl[i + 1:]
            if n >= 8 and r.random() < 0.5:
                for i in r.sample(range(n), r.choice([1, 2, 3])):       # several, also adjacent and at the ends
                    sl = sl[:i] + b"$" + sl[i + 1:]
        s = b"$7$" + A64[nl:nl + 1] + gen.enc64_le(rr, 5) + gen.enc64_le(p, 5) + sl + r.choice([b"", b"$", b"$" + salt(r, 43)])
        return s, "scrypt/N%d/r%d/p%d%s" % (nl, rr, p, "/$" if dollar else ""), 0.01
    if m in ("yescrypt", "gost_yescrypt"):
        fl = r.choice([b"j", b"j", b"/", b"."])
        if r.random() < 0.14:
            # around the pre-hash condition (N/p >= 0x100 and N/p*r >= 0x20000): both sides of it, with p > 1 too
            nl, rr, p, t = r.choice([(12, 32, 1, 0), (12, 32, 2, 0), (12, 32, 3, 0), (12, 32, 5, 0), (13, 32, 2, 0),
                                     (11, 32, 1, 0), (14, 8, 2, 0), (14, 8, 1, 0), (12, 32, 2, 1),
                                     (12, 32, 1, 1), (12, 32, 1, 2), (13, 32, 1, 3), (14, 8, 1, 1)])
            if fl != b"j":
                t = 0
        else:
            nl = r.choice(list(range(2, 13)))
            rr = r.choice([1, 8, 32] if nl <= 9 else [1, 8])
            p = r.choice([1, 1, 2, 3])
            t = r.choice([0, 0, 1, 2]) if fl == b"j" else 0
            if fl == b"." and nl < 2:
                nl = 2
            if nl <= 5 and r.random() < 0.3:
                # numbers that need two characters in yescrypt's variable-length encoding (48 and up)
                k = r.choice(["r", "r", "p", "t"])
                if k == "r":
                    rr = r.choice([48, 49, 50, 63, 64, 65, 82, 100, 113, r.randint(48, 130)])
                elif k == "p":
                    rr, p = r.choice([1, 2]), r.choice([50, 51, 52, 64, 81])
                elif fl == b"j":
                    rr, t = r.choice([1, 2]), r.choice([48, 49, 50, 51, 66])
        params = fl + gen.yes_enc_uint(nl, 1) + gen.yes_enc_uint(rr, 1)
        have = (1 if p > 1 else 0) | (2 if t else 0)
        if have:
            params += gen.yes_enc_uint(have, 1)
            if p > 1:
                params += gen.yes_enc_uint(p, 2)
            if t:
                params += gen.yes_enc_uint(t, 1)
        nb = r.choice([0, 1, 8, 16, 17, 32, 64]) if r.random() < 0.5 else r.randint(0, 64)
        s = gen.TAG[m] + params + b"$" + gen.yes_encode64(bytes(r.getrandbits(8) for _ in range(nb))) + \
            r.choice([b"", b"$", b"$" + salt(r, 43)])
        return s, "%s/%s/N%d/r%d/p%d/t%d" % (m[:4], fl.decode(), nl, rr, p, t), 0.02
    raise ValueError(m)


def make_cases(seed, tier):
    per = 95 if tier == "quick" else 3200
    cases = []
    for m in gen.METHODS:
        tsec = 0.0
        for i in range(per):
            rng = rt.rng_for(seed, PID, m, i)
            s, cls, sec = gen_case(rng, m, tier)
            L = rng.choice(gen.PHRASE_LENS) if rng.random() < 0.75 else rng.randint(0, 511)
            seven = m in ("descrypt", "bigcrypt", "bsdicrypt")
            p = gen.gen_phrase(rng, L, "7bit" if seven and rng.random() < 0.5 else None)
            if gen.cost_units(s, len(p)) > 400000:
                continue
            cases.append((m, cls, p, s, sec * (1 + L / 100.0)))
    # always present: cost spellings at the places where a counter grows a digit / leaves the usual range
    rng = rt.rng_for(seed, PID, "fixed")
    for m, s in (("sunmd5", b"$md5,rounds=95905$abcdefgh$"), ("sunmd5", b"$md5$rounds=100000$salt"),
                 ("sunmd5", b"$md5,rounds=98303$x$"), ("sunmd5", b"$md5,rounds=5904$abcdefgh"),
                 ("sha512crypt", b"$6$rounds=99999$saltsalt"), ("sha256crypt", b"$5$rounds=100000$saltsalt"),
                 ("sha1crypt", b"$sha1$100000$saltsalt$"), ("bsdicrypt", b"_zzz1salt"),
                 ("sha1crypt", b"$sha1$50$" + b"Max.Length/Salt0" * 4), ("sha1crypt", b"$sha1$50$" + b"Max.Length/Salt0" * 3 + b"Max.Length/Salt")):
        cases.append((m, "fixed/" + m, gen.gen_phrase(rng, rng.choice([5, 20, 70])), s, 9.9))
    for n in (51, 52, 53, 54, 55, 56, 63, 64, 116, 117, 119, 120):
        sl = (b"SaltChars./0123456789" * 7)[:n]
        cases.append(("scrypt", "fixed/scrypt-salt%d" % n, gen.gen_phrase(rng, 12), b"$7$5/..../...." + sl, 0.01))
        if n <= 64:
            raw = bytes((i * 37 + n) & 0xFF for i in range(n))
            cases.append(("yescrypt", "fixed/y-salt%d" % n, gen.gen_phrase(rng, 12), b"$y$j5.$" + gen.yes_encode64(raw), 0.01))
            cases.append(("gost_yescrypt", "fixed/gy-salt%d" % n, gen.gen_phrase(rng, 12), b"$gy$j5.$" + gen.yes_encode64(raw), 0.01))
    return cases


# alg-yescrypt-opt.c has three bodies selected by the compiler's target: SSE2 (every default x86-64 build),
# AVX (distributions building for x86-64-v3) and the portable C one (every other architecture)
ISA = {"avx2": "-mavx2", "portable": "-mno-sse2 -mno-sse", "openmp": "-fopenmp", "ndebug": "-DNDEBUG (whole library)",
       "openmp-1-thread": "-fopenmp, OMP_NUM_THREADS=1", "openmp-2-thread": "-fopenmp, OMP_NUM_THREADS=2"}
ISA_EXE = {}


_ENV_WORKERS = {}


def isa_workers():
    out = {}
    for k, exe in ISA_EXE.items():
        out[k] = pool.worker(exe)
        if k == "openmp":
            # fewer threads than lanes (a small container, OMP_NUM_THREADS=1): one thread serves several lanes in turn
            for nthr in ("1", "2"):
                key = (exe, nthr)
                if key not in _ENV_WORKERS:
                    _ENV_WORKERS[key] = pool.Worker(exe, env={"OMP_NUM_THREADS": nthr})
                out["openmp-%s-thread" % nthr] = _ENV_WORKERS[key]
    return out


NDEBUG_EXE = []


def build_isa(tree):
    NDEBUG_EXE.append(tree.program("ndebug", "vw.c"))
    for k, fl in ISA.items():
        if k == "ndebug" or k.startswith("openmp-"):
            continue
        o = tree.variant_object("opt", "alg-yescrypt-opt.c", "isa-" + k, None, fl)
        ISA_EXE[k] = tree.program("opt", "vw.c", name="vw-opt-" + k, replace={"alg-yescrypt-opt.o": o},
                                  libs="-fopenmp" if k == "openmp" else "")


def do_chunk(chunk):
    acc = common.Acc()
    workers = {"opt": rt.vw("opt"), "asan": rt.vw("asan"), "sys": rt.vw("sys")}
    setup = [rt.obj_line(0, align=7, fill="r", seed=11), "preerrno %d" % (0, 34, 22)[len(chunk) % 3]]
    lines = [rt.crypt_line("crypt_rn", 0, p, s) for (_, _, p, s, _) in chunk]
    rows = {k: rt.run_resilient(w, setup, lines, timeout=300) for k, w in workers.items()}
    # gost model needs the $y$ hash of the derived setting (from the tree; itself compared with sys)
    ylines, yidx = [], {}
    for i, (m, cls, p, s, sec) in enumerate(chunk):
        if m == "gost_yescrypt":
            yidx[i] = len(ylines)
            ylines.append(rt.crypt_line("crypt_rn", 0, p, b"$y$" + s[4:]))
    yrows = rt.run_resilient(workers["sys"], setup, ylines, timeout=300) if ylines else []
    # the other instruction-set bodies of the yescrypt core
    fam = [i for i, c in enumerate(chunk) if c[0] in ("yescrypt", "gost_yescrypt", "scrypt")]
    isa_rows = {}
    if NDEBUG_EXE:
        # every method on the -DNDEBUG build
        rr = rt.run_resilient(pool.worker(NDEBUG_EXE[0]), setup, lines, timeout=300)
        isa_rows["ndebug"] = dict(enumerate(rr))
    if fam and ISA_EXE:
        for k, w in isa_workers().items():
            rr = rt.run_resilient(w, setup, [lines[i] for i in fam], timeout=300)
            isa_rows[k] = dict(zip(fam, rr))
    for i, (m, cls, p, s, sec) in enumerate(chunk):
        acc.count("evaluations")
        ro, ra, rs = rows["opt"][i], rows["asan"][i], rows["sys"][i]
        ln = lines[i]
        if isinstance(ra, Death) or isinstance(ro, Death):
            d = ra if isinstance(ra, Death) else ro
            acc.inconc("worker death %s/%s on %s" % (d.kind(), d.frame(), m))
            continue
        if not all(isinstance(x, dict) for x in (ro, ra, rs)):
            acc.inconc("timeout %s" % m)
            continue
        ho, ha, hs = rt.hash_of(ro), rt.hash_of(ra), rt.hash_of(rs)

        def viol(kind, detail):
            acc.violation("%s/%s/%s" % (PID, kind, m),
                          "setting=%r phrase(%d)=%s: %s" % (s, len(p), p.hex()[:60], detail),
                          rt.replay_obj("opt", setup + [ln]))
        if ho != ha:
            viol("opt-vs-asan", "-O2 build gives %r, ASan build gives %r" % (ho, ha))
            continue
        for k, rr in isa_rows.items():
            if i not in rr:
                continue
            r2 = rr[i]
            if isinstance(r2, Death):
                if r2.kind() == "signal:SIGILL":
                    acc.inconc("this CPU cannot run the %s build" % k)
                else:
                    viol("isa-" + k + "-died", "the %s build of alg-yescrypt-opt.c died: %s/%s" % (k, r2.kind(), r2.frame()))
                continue
            if not isinstance(r2, dict):
                acc.inconc("timeout %s %s" % (k, m))
                continue
            acc.count("isa/" + k)
            acc.cls(("isa", k, m, ho is not None))
            if rt.hash_of(r2) != ho:
                viol("isa-" + k, "the SSE2 build gives %r, the %s build (%s) gives %r" % (ho, k, ISA[k], rt.hash_of(r2)))
        rm = gen.result_method(s, len(p)) or m
        want = None
        if sec <= 0.6:
            if m == "gost_yescrypt":
                yr = yrows[yidx[i]]
                yh = rt.hash_of(yr) if isinstance(yr, dict) else None
                if yh is not None:
                    try:
                        want = ref.gost_outer(p, s, yh)
                    except Exception:
                        want = None
            else:
                want = ref.model_hash(rm, p, s)
        if ho is None:
            acc.count("tree_refused")
            if hs is not None and want is not None and want == hs:
                viol("refuses-valid", "released library and reference model agree on %r but the tree refuses (errno %s)" % (hs, ro["e"]))
            continue
        acc.count("tree_success")
        acc.cls((m, cls))
        if hs is None:
            acc.count("sys_refused_tree_accepts")
        else:
            acc.count("compared_with_release")
            acc.count("rel/" + m)
            if hs != ho:
                viol("differs-from-release", "tree %r, libxcrypt 4.4.33 %r" % (ho, hs))
                continue
        if want is not None:
            acc.count("compared_with_model")
            acc.count("mod/" + m)
            if want != ho:
                if hs is not None and hs == ho:
                    # tree and release agree, the model is the odd one out: outside the model's domain
                    acc.count("model_disagrees_with_both")
                    acc.inconc("model disagrees with tree and release: %s %r" % (m, s))
                else:
                    viol("differs-from-model", "tree %r, reference model %r" % (ho, want))
        acc.sample({"method": m, "setting": s.decode("latin1"), "phrase_len": len(p), "hash": ho.decode("latin1"),
                    "release": hs is not None, "model": want is not None}, cap=2)
    return acc


def do_bcrypt_pure(args):
    seed, = args
    acc = common.Acc()
    rng = rt.rng_for(seed, PID, "bcrypt-pure")
    w = rt.vw("opt")
    tag = rng.choice([b"$2b$", b"$2y$"])
    raw = bytes(rng.getrandbits(8) for _ in range(16))
    p = gen.gen_phrase(rng, rng.choice([0, 1, 8, 55, 56, 71, 72, 73, 100]), "bin")
    s22, d31 = ref.bcrypt_pure(p, 4, raw)
    want = tag + b"04$" + s22 + d31
    res, end = w.run([rt.obj_line(0), rt.crypt_line("crypt_rn", 0, p, tag + b"04$" + s22)], 120)
    if end is None:
        acc.count("evaluations")
        acc.count("compared_with_pure_bcrypt")
        acc.cls(("bcrypt-pure", tag, len(p) > 72))
        h = rt.hash_of(res[1])
        if h != want:
            acc.violation("%s/differs-from-model/%s" % (PID, "bcrypt" if tag == b"$2b$" else "bcrypt_y"),
                          "phrase(%d)=%s: tree %r, pure-Python Eksblowfish %r" % (len(p), p.hex()[:60], h, want),
                          rt.replay_obj("opt", [rt.obj_line(0), rt.crypt_line("crypt_rn", 0, p, tag + b"04$" + s22)]))
    return acc


def run(tier):
    run_ = common.Run(PID, tier, "exploration")
    bad = ref.selftest()
    if bad:
        run_.harness_error("reference self-test failed: %s" % bad)
    tree = rt.prepare(["opt", "asan"], sys_worker=True)
    build_isa(tree)
    cases = make_cases(run_.seed, tier)
    for acc in pool.pmap(do_chunk, pool.chunks(cases, 12)):
        run_.merge(acc)
    # pure-Python Eksblowfish (tables computed from the digits of pi): a second opinion that does not
    # share the crypt_blowfish lineage of both the tree and nettle
    for acc in pool.pmap(do_bcrypt_pure, [(run_.seed * 10 + i,) for i in range(4 if tier == "quick" else 16)]):
        run_.merge(acc)
    a = run_.acc
    nomodel = {"yescrypt"}       # only the '.' flavour has an independent model
    cov = {
        "rule": "case = (method, phrase 0..511 bytes 8-bit, documented-format setting with every salt length and the "
                "listed cost spellings within the compute budget); tree at -O2 and under ASan vs released libxcrypt "
                "4.4.33 (separate process) vs independent model; distinct = (method, cost/salt class) cells with a "
                "successful comparison",
        "tree_successes": int(a.n.get("tree_success", 0)),
        "compared_with_release": int(a.n.get("compared_with_release", 0)),
        "compared_with_model": int(a.n.get("compared_with_model", 0)),
        "per_method_release": {m: int(a.n.get("rel/" + m, 0)) for m in gen.METHODS},
        "per_method_model": {m: int(a.n.get("mod/" + m, 0)) for m in gen.METHODS},
        "model_disagrees_with_tree_and_release": int(a.n.get("model_disagrees_with_both", 0)),
        "compared_with_pure_python_eksblowfish": int(a.n.get("compared_with_pure_bcrypt", 0)),
        "hashes_compared_on_other_builds": {k: int(a.n.get("isa/" + k, 0)) for k in ISA},
        "flavours": ["opt (-O2)", "asan", "sys (libxcrypt 4.4.33 /lib/x86_64-linux-gnu/libcrypt.so.1)",
                     "opt with alg-yescrypt-opt.c built -mavx2", "opt with alg-yescrypt-opt.c built -mno-sse2 (portable C body)",
                     "-O2 -DNDEBUG (whole library)"],
    }
    req = {"release/" + m: a.n.get("rel/" + m, 0) for m in gen.METHODS}
    req.update({"model/" + m: a.n.get("mod/" + m, 0) for m in gen.METHODS})
    return run_.finish(cov, assumptions=[
        "native yescrypt ($y$ flavours j and /) has no independent implementation offline: released binary only; the "
        "'.' flavour is classic scrypt and is compared with OpenSSL",
        "the released binary is immune to edits of /repo but not independent of bugs it shares with the tree",
        "inputs outside the models' documented-format domain are compared with the released binary only"],
        min_conclusive=800, conclusive=int(a.n.get("compared_with_release", 0)), required=req)
