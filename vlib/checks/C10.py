"""C10 - every setting crypt_gensalt* produces is accepted by crypt and kept
(DESIGN §4 C10)."""
import os

from .. import common, decode, facts, gen, pool, rt
from ..pool import Death, Timeout

PID = "C10"
FL = "asan"
HASH_BUDGET = 60000


def cheap_count(rng, m):
    """a valid count whose generated setting is affordable to hash"""
    if m in ("sha256crypt", "sha512crypt"):
        return rng.choice([0, 1000, 1001, 1999, 5000, 5001])
    if m == "bsdicrypt":
        return rng.choice([0, 1, 2, 7, 100, 725, 999])
    if m == "sha1crypt":
        return rng.choice([1, 4, 5, 50, 200, 1000])
    if m == "sunmd5":
        return rng.choice([0, 1, 32768])
    if m.startswith("bcrypt"):
        return rng.choice([0, 4, 5])
    if m in ("yescrypt", "gost_yescrypt"):
        return rng.choice([0, 1, 2, 3])
    if m == "scrypt":
        return rng.choice([0, 6])
    return 0


def prefix_variants(rng, m):
    tag = gen.TAG[m]
    out = [("tag", tag)]
    s, _ = gen.gen_valid(rng, m)
    out.append(("setting", s))
    return out


def make_cases(seed, tier, only=None, default_method="yescrypt"):
    cases = []
    nrs = list(range(0, 65)) + ([65, 70, 100, 128, 200, 255, 256] if tier == "quick" else list(range(65, 257)))
    for m in (only if only is not None else gen.METHODS + [None]):
        fm = m or default_method
        for nr in nrs:
            for pat in (["rnd", "ff", "zero"] if tier == "quick" else ["rnd", "ff", "zero"] + ["rnd%d" % k for k in range(9)]):
                rng = rt.rng_for(seed, PID, m, nr, pat)
                kind, prefix = ("null", None) if m is None else rng.choice(prefix_variants(rng, m))
                count = cheap_count(rng, fm)
                if rng.random() < 0.15:
                    count = rng.choice(facts.interesting_counts(fm))
                cases.append({"m": m, "fm": fm, "pk": kind, "prefix": prefix, "count": count, "nr": nr,
                              "rb": facts.rbytes_pattern(pat, nr, seed + nr), "pat": pat,
                              "ph": [gen.gen_phrase(rng, rng.choice([0, 8, 30])), gen.gen_phrase(rng, 72)]})
    # every boundary class of count, deterministically (not left to the draw above): with all-ones and random bytes
    for m in (only if only is not None else gen.METHODS + [None]):
        fm = m or default_method
        for count in facts.interesting_counts(fm):
            for pat in ("ff", "rnd"):
                rng = rt.rng_for(seed, PID, m, "count", count, pat)
                cases.append({"m": m, "fm": fm, "pk": "tag" if m else "null", "prefix": gen.TAG[m] if m else None, "count": count,
                              "nr": 64, "rb": facts.rbytes_pattern(pat, 64, seed + count % 97), "pat": pat,
                              "ph": [gen.gen_phrase(rng, 8), gen.gen_phrase(rng, 72)]})
    return cases


# selections in which a method is built without the sibling it shares code with: what crypt_gensalt hands out
# there must still be hashed by crypt there
CONFIGS = [("gost-only", ["gost_yescrypt"]), ("scrypt-only", ["scrypt"]), ("gost-scrypt-sha512", ["gost_yescrypt", "scrypt", "sha512crypt"]),
           ("bigcrypt-only", ["bigcrypt"]), ("descrypt-md5", ["descrypt", "md5crypt"]), ("bcrypt_a-only", ["bcrypt_a", "sha256crypt"])]


def do_config(args):
    from . import C19
    import shutil
    (name, en), seed, tier = args
    bname, en, exe, err, _ = C19.build_config((PID + "-" + name, en, None,
                                               "-O1 -g -fno-omit-frame-pointer -fsanitize=address,undefined "
                                               "-fno-sanitize-recover=all"))
    if exe is None:
        acc = common.Acc()
        acc.inconc("configuration %s does not build: %s" % (name, err[-300:]))
        return acc
    try:
        dflt = next((m for m in gen.DEFAULT_ORDER if m in en), None)
        cases = [c for c in make_cases(seed + 5, "quick", only=[m for m in gen.METHODS if m in en] + ([None] if dflt else []),
                                       default_method=dflt or "yescrypt")
                 if c["nr"] in (0, 1, 2, 3, 8, 15, 16, 17, 24, 32, 64, 100)]
        acc = common.Acc()
        for ch in pool.chunks(cases, 24):
            acc.merge(do_chunk(ch, exe))
        acc.count("configuration_cases", len(cases))
    finally:
        shutil.rmtree(os.path.dirname(exe), ignore_errors=True)
    for v in acc.viol:
        v["key"] = v["key"] + "@" + name
        v["detail"] = "[--enable-hashes=%s] %s" % (",".join(en), v["detail"])
    return acc


def do_fortify(chunk):
    acc = do_chunk(chunk, rt.PATHS["vw-fortify"])
    for v in acc.viol:
        v["key"] = v["key"] + "@fortify"
        v["detail"] = "[-O2 -D_FORTIFY_SOURCE=2] " + v["detail"]
    acc.count("fortify_cases", len(chunk))
    return acc


def do_chunk(chunk, exe=None):
    acc = common.Acc()
    w = pool.Worker(exe) if exe else rt.vw(FL)
    setup = [rt.obj_line(0, align=2, fill="r", seed=4), "ledger 1", "preerrno %d" % rt.stale_errno(len(chunk[0]["rb"] or b"") + chunk[0]["count"] % 7 + len(chunk))]
    lines = []
    for c in chunk:
        a = (c["prefix"], c["count"], c["rb"], c["nr"])
        lines.append(rt.gensalt_line("rn", *a, 192))
        lines.append(rt.gensalt_line("rn", *a, 193 if c["nr"] % 2 else 1000))
        lines.append(rt.gensalt_line("ra", *a, 0))
        lines.append(rt.gensalt_line("st", *a, 0))
    rows = rt.run_resilient(w, setup, lines)
    rt.errno_independence(acc, PID, w, setup[:2], lines, rows, FL, chunk[0]["m"] or "NULL")
    follow, fidx = [], []
    expensive_done = set()
    for ci, c in enumerate(chunk):
        rr = rows[4 * ci:4 * ci + 4]
        ll = lines[4 * ci:4 * ci + 4]
        name = c["m"] or "NULL"
        acc.count("evaluations")
        dead = [(r, l) for r, l in zip(rr, ll) if isinstance(r, Death)]
        if dead:
            rt.death_violation(acc, PID, dead[0][0], FL, dead[0][1], "gensalt/" + name, setup)
            continue
        if not all(isinstance(r, dict) for r in rr):
            acc.inconc("timeout")
            continue

        def viol(kind, detail, extra=()):
            acc.violation("%s/%s/%s" % (PID, kind, name),
                          "prefix=%r(%s) count=%d nrbytes=%d: %s" % (c["prefix"], c["pk"], c["count"], c["nr"], detail),
                          rt.replay_obj(FL, setup + ll + list(extra)))
        outs = [(True, r.get("o")) if r["r"] != "N" else (False, rt.errno_of(r)) for r in rr]
        if c["nr"] > 64 and outs[0] == (False, rt.ERANGE) and outs[2] == outs[0] and outs[3] == outs[0]:
            # more than 64 random bytes may need more than CRYPT_GENSALT_OUTPUT_SIZE (C13 guarantees
            # 192 bytes only up to 64): the three 192-byte entry points agree, the larger buffer may succeed
            outs[1] = outs[0]
        if len(set(outs)) != 1:
            viol("entry-points-disagree", "rn192/rn-large/ra/static gave %s" % [(r["r"], r.get("o")) for r in rr])
            continue
        r = rr[0]
        if r["r"] == "N":
            acc.count("gensalt_failures")
            acc.cls((name, "fail", min(c["nr"], 20)))
            e = rt.errno_of(r)
            if e not in (rt.EINVAL, rt.ERANGE, rt.ENOMEM):
                viol("errno", "errno %d" % e)
            continue
        g = rt.out_of(r)
        acc.count("gensalt_successes")
        acc.count("gs/" + name)
        acc.cls((name, c["pk"], min(c["nr"], 66)))
        if r.get("nul") != "1" or len(g) >= 192:
            viol("too-long", "len=%d" % len(g))
        if gen.has_bad_chars(g) or g[:1] == b"*":
            viol("bad-chars", "result %r" % g)
        # begins with the tag the prefix argument selects
        want = c["fm"] if c["m"] else None
        sel = gen.classify(g)
        fam = lambda x: "des" if x in ("descrypt", "bigcrypt") else x
        if c["m"] is None:
            pass        # judged below against crypt_preferred_method
        elif fam(sel) != fam(c["m"]) or (gen.TAG[c["m"]] and not g.startswith(gen.TAG[c["m"]])):
            viol("wrong-tag", "result %r does not carry the tag of %s" % (g, c["m"]))
        cost = gen.cost_units(g, 72)
        follow.append("checksalt %s" % pool.hx(g))
        follow.append("preferred")
        nh = 0
        if cost <= HASH_BUDGET:
            for p in c["ph"]:
                follow.append(rt.crypt_line("crypt_rn", 0, p, g))
                nh += 1
        elif cost <= 12 * HASH_BUDGET and name not in expensive_done:
            # methods whose cheapest generated setting is above the budget (sunmd5: >= 32768
            # rounds, scrypt: >= 32 MiB): one hash per method and chunk
            expensive_done.add(name)
            follow.append(rt.crypt_line("crypt_rn", 0, c["ph"][0], g))
            nh = 1
        else:
            acc.count("not_hashed")
        fidx.append((ci, g, nh))
    rows2 = rt.run_resilient(w, setup, follow, timeout=300) if follow else []
    k = 0
    for ci, g, nh in fidx:
        c = chunk[ci]
        name = c["m"] or "NULL"
        part = rows2[k:k + 2 + nh]
        pl = follow[k:k + 2 + nh]
        k += 2 + nh
        gl = lines[4 * ci:4 * ci + 1]

        def viol(kind, detail, ln):
            acc.violation("%s/%s/%s" % (PID, kind, name),
                          "prefix=%r count=%d nrbytes=%d generated %r: %s" % (c["prefix"], c["count"], c["nr"], g, detail),
                          rt.replay_obj(FL, setup + gl + [ln]))
        if not all(isinstance(x, dict) for x in part):
            for x, ln in zip(part, pl):
                if isinstance(x, Death):
                    rt.death_violation(acc, PID, x, FL, ln, "crypt-of-generated/" + name, setup + gl)
            continue
        if part[0]["v"] == "1":
            viol("checksalt-invalid", "crypt_checksalt says INVALID", pl[0])
        if c["m"] is None:
            pm = rt.unhx(part[1].get("v", "-"))
            if pm is None or not g.startswith(pm):
                viol("null-prefix-not-preferred", "NULL prefix gave %r but crypt_preferred_method() = %r" % (g, pm), pl[1])
        for x, ln, p in zip(part[2:], pl[2:], c["ph"]):
            acc.count("crypt_of_generated")
            h = rt.hash_of(x)
            if h is None:
                viol("generated-setting-refused", "crypt_rn fails with errno %s" % x["e"], ln)
            elif not h.startswith(g):
                viol("setting-not-a-prefix", "hash %r does not start with the generated setting" % h, ln)
            else:
                acc.count("ch/" + name)
        if len(acc.samples) < 3:
            acc.sample({"prefix": (c["prefix"] or b"(NULL)").decode("latin1"), "count": c["count"],
                        "nrbytes": c["nr"], "generated": g.decode("latin1"), "hashed": nh})
    if exe:
        w.stop()
    return acc


def do_static(args):
    """crypt(P, crypt_gensalt(...)) without copying equals crypt_rn(P, copy)"""
    seed, n = args
    acc = common.Acc()
    w = rt.vw(FL)
    rng = rt.rng_for(seed, PID, "static")
    lines, meta = [], []
    for i in range(n):
        m = rng.choice([x for x in facts.GENSALT_METHODS if x not in ("sunmd5", "scrypt")])
        cnt = cheap_count(rng, m)
        p = gen.gen_phrase(rng, rng.choice([0, 9, 40]))
        rb = facts.rbytes_pattern("rnd", 32, i)
        lines.append("gscrypt %s %d %s 32 %s" % (pool.hx(gen.TAG[m]), cnt, pool.hx(rb), pool.hx(p)))
        meta.append((m, p))
    rows = rt.run_resilient(w, [], lines, timeout=300)
    chk, cidx = [], []
    for (m, p), r, ln in zip(meta, rows, lines):
        if not isinstance(r, dict):
            continue
        g = rt.unhx(r.get("g", "-"))
        if g is None:
            acc.violation("%s/static-gensalt-failed/%s" % (PID, m), ln, rt.replay_obj(FL, [ln]))
            continue
        o = rt.unhx(r.get("o", "-")) if r["r"] == "S" else None
        if r.get("kept") == "0" or r.get("again") == "0":
            acc.violation("%s/static-setting-not-kept/%s" % (PID, m),
                          "s = crypt_gensalt(...) = %r; after crypt(P, s) the string at s is %s and a second crypt(P, s) "
                          "%s" % (g, "unchanged" if r.get("kept") == "1" else "no longer the setting",
                                  "gives the same hash" if r.get("again") == "1" else "gives another answer"),
                          rt.replay_obj(FL, [ln]))
        chk.append(rt.crypt_line("crypt_rn", 0, p, g))
        cidx.append((m, g, o, ln))
    rows = rt.run_resilient(w, [rt.obj_line(0)], chk, timeout=300)
    for (m, g, o, ln), r in zip(cidx, rows):
        if not isinstance(r, dict):
            continue
        acc.count("evaluations")
        acc.count("static_to_crypt")
        acc.cls(("static", m))
        if rt.hash_of(r) != o or o is None:
            acc.violation("%s/static-to-crypt/%s" % (PID, m),
                          "crypt(P, crypt_gensalt()) = %r, crypt_rn(P, copy %r) = %r" % (o, g, rt.hash_of(r)),
                          rt.replay_obj(FL, [ln]))
    return acc


def run(tier):
    run_ = common.Run(PID, tier, "exploration")
    rt.prepare([FL, "fortify"])
    cases = make_cases(run_.seed, tier)
    for acc in pool.pmap(do_chunk, pool.chunks(cases, 24)):
        run_.merge(acc)
    for acc in pool.pmap(do_config, [(c, run_.seed, tier) for c in CONFIGS]):
        run_.merge(acc)
    # a -D_FORTIFY_SOURCE=2 build (how distributions build): the entry points once more, incl. buffers above 192 bytes
    fcases = [c for c in cases if c["nr"] in (16, 32, 64)]
    for acc in pool.pmap(do_fortify, pool.chunks(fcases, 24)):
        run_.merge(acc)
    ns = 20 if tier == "quick" else 1500
    for acc in pool.pmap(do_static, [(run_.seed * 50 + i, ns) for i in range(16)]):
        run_.merge(acc)
    a = run_.acc
    cov = {
        "rule": "case = (prefix: tag / full setting / NULL, count: affordable valid value or a boundary class, "
                "nrbytes 0..64 each (+ larger), byte pattern) through crypt_gensalt_rn (192 and a larger buffer), _ra "
                "and the static entry; every success is checked for character set, length, tag, crypt_checksalt, and "
                "hashed with two phrases when affordable (literal-prefix check); distinct = (prefix kind, method, "
                "nrbytes) cells",
        "nrbytes_exhaustive_upto": 64 if tier == "quick" else 256,
        "gensalt_successes": int(a.n.get("gensalt_successes", 0)),
        "gensalt_failures": int(a.n.get("gensalt_failures", 0)),
        "crypt_of_generated_setting": int(a.n.get("crypt_of_generated", 0)),
        "not_hashed_too_expensive": int(a.n.get("not_hashed", 0)),
        "static_result_passed_to_crypt": int(a.n.get("static_to_crypt", 0)),
        "cases_in_other_hash_selections": int(a.n.get("configuration_cases", 0)),
        "cases_on_the_fortified_build": int(a.n.get("fortify_cases", 0)),
        "other_hash_selections": [n_ + "=" + ",".join(h_) for n_, h_ in CONFIGS],
        "flavour": FL,
    }
    req = {m: a.n.get("gs/" + m, 0) for m in facts.GENSALT_METHODS + ["NULL"]}
    req.update({"hashed/" + m: a.n.get("ch/" + m, 0) for m in facts.GENSALT_METHODS + ["NULL"]})
    return run_.finish(cov, assumptions=[
        "generated settings above the cost budget are checked structurally only (counted as not_hashed)"],
        min_conclusive=1000, required=req)
