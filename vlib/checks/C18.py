"""C18 - crypt_checksalt and crypt_preferred_method agree with crypt and
crypt_gensalt (DESIGN §4 C18)."""
import json
import os
import re
import subprocess

from .. import common, facts, gen, pool, rt

PID = "C18"


def enabled_methods(gendir):
    with open(os.path.join(gendir, "crypt-hashes.h")) as f:
        t = f.read()
    return [m for m in gen.METHODS if re.search(r"#define INCLUDE_%s\s+1" % m, t)]


def run_shard(args):
    exe, shard, nsh, len4, seed, en = args
    p = subprocess.run([exe, str(shard), str(nsh), len4, str(seed), ",".join(en)],
                       stdout=subprocess.PIPE, stderr=subprocess.PIPE, text=True, timeout=3000)
    return p.returncode, p.stdout, p.stderr


def do_crypt_side(args):
    """successful crypt inputs are never INVALID and carry the documented class"""
    seed, n, en = args[:3]
    fl = args[3] if len(args) > 3 else "asan"
    acc = common.Acc()
    w = rt.vw(fl)
    rng = rt.rng_for(seed, PID, "crypt")
    lines, meta = [], []
    cands = []
    for i in range(n):
        m = rng.choice(en)
        s, f = gen.gen_valid(rng, m)
        if rng.random() < 0.3:
            s, _ = gen.mutate(rng, s, long_ok=False)
        if gen.cost_units(s, 8) > 15000:
            continue
        cands.append(s)
    # the strings the dispatcher treats specially: empty, one character, failure tokens, bare tags
    cands += [b"", b"a", b".", b"*0", b"*1", b"$", b"_", b"$1", b"$y", b"a$", b"ab", b"a*"] * 3
    for s in cands:
        ph = rng.choice([b"phrase", b"", b"p", b"12345678", b"123456789", b"a phrase of some length"])
        lines.append(rt.crypt_line("crypt_rn", 0, ph, s))
        lines.append("checksalt %s" % pool.hx(s))
        meta.append(s)
    rows = rt.run_resilient(w, [rt.obj_line(0)], lines)
    for k, s in enumerate(meta):
        a, b = rows[2 * k], rows[2 * k + 1]
        if not isinstance(a, dict) or not isinstance(b, dict):
            continue
        acc.count("evaluations")
        v = int(b["v"])
        want = gen.checksalt_expect(s, en)
        acc.cls(("crypt-side", gen.classify(s, en), v))
        if v != want:
            acc.violation("%s/checksalt-differs/%s" % (PID, gen.classify(s, en)),
                          "crypt_checksalt(%r) = %d, independent classifier %d" % (s, v, want),
                          rt.replay_obj(fl, [lines[2 * k + 1]]))
        if rt.hash_of(a) is not None:
            acc.count("crypt_successes")
            if v == gen.SALT_INVALID:
                acc.violation("%s/hashable-but-invalid/%s" % (PID, gen.classify(s, en)),
                              "crypt hashes %r but crypt_checksalt says INVALID" % s,
                              rt.replay_obj(fl, [rt.obj_line(0)] + lines[2 * k:2 * k + 2]))
    return acc


def run(tier):
    run_ = common.Run(PID, tier, "exploration")
    tree = rt.prepare(["asan", "opt"])
    en = enabled_methods(tree.gendir())
    exe = tree.program("opt", "venum.c", name="venum-opt", wrap=False)
    # a consumer of the generated header, optimised: attributes in <crypt.h> act in the caller
    hacc = common.Acc()
    for lvl in ("-O2", "-O3"):
        hexe = tree.program("opt", "vhdr.c", name="vhdr-app" + lvl, wrap=False, extra_cflags=lvl, consumer=True)
        hp = subprocess.run([hexe], stdout=subprocess.PIPE, stderr=subprocess.PIPE, text=True, timeout=300)
        for ln in hp.stdout.splitlines():
            if ln.startswith("VIOL "):
                t = ln.split(" ", 2)
                hacc.violation("%s/%s" % (PID, t[1]), "a program compiled %s against the generated <crypt.h>: %s" % (lvl, t[2]),
                               {"cmd": hexe})
            elif ln.startswith("STAT "):
                hacc.count("evaluations", json.loads(ln[5:])["evaluations"])
                hacc.count("header_consumer_checks", json.loads(ln[5:])["evaluations"])
                hacc.cls(("header-consumer", lvl))
        if hp.returncode not in (0, 1):
            hacc.violation(PID + "/header-consumer/died", "rc=%s %s" % (hp.returncode, hp.stderr[-300:]), {"cmd": hexe})
    run_.merge(hacc)
    nsh = 16
    len4 = "all" if tier == "thorough" else str(2000000 // nsh)
    acc = common.Acc()
    tot = {}
    for rc, out, err in pool.pmap(run_shard, [(exe, i, nsh, len4, run_.seed, en) for i in range(nsh)]):
        if rc not in (0, 1):
            run_.harness_error("venum exit %s: %s" % (rc, err[-300:]))
            continue
        for ln in out.splitlines():
            if ln.startswith("VIOL "):
                _, hx, got, want = ln.split()
                s = b"" if hx == "." else (None if hx == "NULL" else bytes.fromhex(hx))
                if s == b"PREFERRED":
                    acc.violation("%s/preferred-method" % PID, "crypt_preferred_method() is not the strongest enabled "
                                  "default-capable prefix, or crypt_checksalt does not say OK for it (checksalt=%s)" % got, None)
                    continue
                cls = "null" if s is None else ("len%d" % len(s) if len(s) <= 4 else "long")
                acc.violation("%s/checksalt-differs/%s" % (PID, cls),
                              "crypt_checksalt(%r) = %s, independent classifier says %s" % (s, got, want),
                              rt.replay_obj("asan", ["checksalt %s" % pool.hx(s)]))
            elif ln.startswith("STAT "):
                for k, v in json.loads(ln[5:]).items():
                    tot[k] = tot.get(k, 0) + v
    acc.count("evaluations", tot.get("evaluations", 0))
    for k in ("ok", "legacy", "invalid"):
        acc.cls(("enumeration", k, tot.get(k, 0) > 0))
    run_.merge(acc)
    # other build configurations (the property quantifies over them; C19 owns the rest): the enumeration
    # of all strings of length <= 3 against the classifier restricted to the enabled methods
    from . import C19
    import shutil
    cfgs = [("c18:bcrypt_a", ["bcrypt_a", "sha256crypt"]), ("c18:glibc", ["descrypt", "md5crypt", "sha256crypt", "sha512crypt"]),
            ("c18:bigcrypt", ["bigcrypt", "gost_yescrypt"]),
            # the table's last tagged entry without the empty-prefix DES entries behind it, and nothing but DES
            ("c18:bsdi-no-des", ["bsdicrypt", "sha512crypt"]), ("c18:nt-last", ["nt", "yescrypt"]),
            ("c18:des-only", ["descrypt"])]
    if tier == "thorough":
        rngc = rt.rng_for(run_.seed, PID, "cfg")
        cfgs += [("c18:rnd%d" % i, sorted(rngc.sample(gen.METHODS, rngc.randint(1, 8)))) for i in range(6)]
    acc2 = common.Acc()
    for name, en2, vwexe, err, ipd in pool.pmap(C19.build_config, cfgs):
        if vwexe is None:
            acc2.inconc("configuration %s did not build (C19 judges that): %s" % (name, err[:100]))
            continue
        d = os.path.dirname(vwexe)
        ve = os.path.join(d, "venum")
        objs = " ".join(os.path.join(d, o) for o in os.listdir(d) if o.endswith(".o"))
        from .. import build as _b
        pc = subprocess.run("gcc -std=gnu11 -O1 -I%s %s %s -o %s" % (os.path.join(d, "gen"), os.path.join(_b.HARNESS, "venum.c"), objs, ve),
                            shell=True, stdout=subprocess.PIPE, stderr=subprocess.STDOUT, text=True)
        if pc.returncode == 0:
            outs = pool.pmap(run_shard, [(ve, i, 8, "20000", run_.seed, en2) for i in range(8)])
            for rc, out, err2 in outs:
                for ln in out.splitlines():
                    if ln.startswith("VIOL "):
                        _, hx, got, want = ln.split()
                        sv = b"" if hx == "." else (None if hx == "NULL" else bytes.fromhex(hx))
                        if sv == b"PREFERRED":
                            acc2.violation("%s/preferred-method/config" % PID,
                                           "configuration %s: crypt_preferred_method() is not the strongest enabled default-capable "
                                           "prefix, or crypt_checksalt does not say OK for it (checksalt=%s)" % (",".join(en2), got),
                                           {"selection": en2})
                            continue
                        acc2.violation("%s/checksalt-differs/config" % PID,
                                       "configuration %s: crypt_checksalt(%r) = %s, classifier for the enabled set says %s" % (
                                           ",".join(en2), sv, got, want), {"selection": en2})
                    elif ln.startswith("STAT "):
                        acc2.count("evaluations", json.loads(ln[5:]).get("evaluations", 0))
                        acc2.count("config_evaluations", json.loads(ln[5:]).get("evaluations", 0))
            acc2.cls(("config", name))
            acc2.count("configurations")
        shutil.rmtree(d, ignore_errors=True)
    run_.merge(acc2)
    n = 3000 if tier == "quick" else 40000
    for a in pool.pmap(do_crypt_side, [(run_.seed * 100 + i, n // 16, en, ("asan", "opt")[i % 2]) for i in range(16)]):
        run_.merge(a)
    # preferred method: OK for checksalt, and gensalt(NULL) == gensalt(preferred)
    w = rt.vw("asan")
    rb = facts.rbytes_pattern("rnd", 64, run_.seed)
    res, end = w.run(["preferred"], 30)
    a2 = common.Acc()
    if end is None:
        pm = rt.unhx(res[0].get("v", "-"))
        exp_pm = next((gen.TAG[m] for m in gen.DEFAULT_ORDER if m in en), None)
        a2.count("evaluations")
        a2.cls(("preferred", pm))
        if pm != exp_pm:
            a2.violation(PID + "/preferred-method", "crypt_preferred_method() = %r, strongest enabled default is %r" % (pm, exp_pm),
                         rt.replay_obj("asan", ["preferred"]))
        if pm is not None:
            lines = ["checksalt %s" % pool.hx(pm)]
            for c in (0, 1, 5, 11, 12, 1000):
                lines.append(rt.gensalt_line("rn", None, c, rb, 64, 192))
                lines.append(rt.gensalt_line("rn", pm, c, rb, 64, 192))
            res, end = w.run(lines, 60)
            if end is None:
                if res[0]["v"] != "0":
                    a2.violation(PID + "/preferred-not-ok", "crypt_checksalt(preferred %r) = %s" % (pm, res[0]["v"]),
                                 rt.replay_obj("asan", lines[:1]))
                for i in range(1, len(res), 2):
                    a2.count("evaluations")
                    x, y = res[i], res[i + 1]
                    if (x["r"], x.get("o"), x["e"] if x["r"] == "N" else 0) != (y["r"], y.get("o"), y["e"] if y["r"] == "N" else 0):
                        a2.violation(PID + "/null-prefix-differs", "%s -> %s but %s -> %s" % (lines[i], x, lines[i + 1], y),
                                     rt.replay_obj("asan", lines[i:i + 2]))
    pool.stop_all()
    run_.merge(a2)
    cov = {
        "rule": "enumeration: every byte string of length <= 3 (bytes 1..255) and %s printable strings of length 4, "
                "plus random longer strings (printable, arbitrary bytes, tag + valid/invalid tails), each compared with "
                "the independent classifier built from hashes.conf; crypt side: grammar-generated and mutated settings "
                "hashed and classified; preferred method and NULL-prefix equivalence; distinct = observed classes" % (
                    "all 94^4" if tier == "thorough" else "2,000,000 sampled"),
        "exhaustive": True,
        "strings_len_le3": tot.get("len_le3", 0),
        "strings_len4": tot.get("len4", 0),
        "strings_longer": tot.get("longer", 0),
        "verdict_counts": {k: tot.get(k, 0) for k in ("ok", "legacy", "invalid")},
        "crypt_successes_cross_checked": int(run_.acc.n.get("crypt_successes", 0)),
        "enabled_methods": en,
        "other_configurations_enumerated": int(run_.acc.n.get("configurations", 0)),
        "strings_checked_in_other_configurations": int(run_.acc.n.get("config_evaluations", 0)),
        "samples": ["$y$", "ab", "$2x$", "_", "$zz"],
        "flavours": ["opt (-O2) for the enumeration", "asan and opt for the crypt side"],
    }
    return run_.finish(cov, assumptions=[
        "exhaustive refers to the enumerated spaces (length <= 3 always; length 4 printable in the thorough tier)"],
        min_conclusive=1000000)
