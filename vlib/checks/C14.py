"""C14 - crypt_ra / crypt_gensalt_ra allocation protocol (DESIGN §4 C14).

The link-time ledger (malloc/realloc/free wrappers) watches histories of
crypt_ra calls on a shared (*data, *size) pair from every start class."""
import os
import shutil

from .. import common, facts, gen, pool, rt
from ..pool import Death, Timeout

PID = "C14"
FL = "asan"
CD = rt.CD_SIZE
INT_MIN = -2147483648
BUDGET = 8000

START_CLASSES = ["null", "valid", "valid-large", "small", "tiny", "neg-size", "zero-size", "intmin-size",
                 "null-stale-size", "null-neg-size"]


def start_line(rng, cls):
    if cls == "null":
        return "raobj 2 -1 0", None
    if cls == "null-stale-size":
        # the caller freed a larger block of its own, reset the pointer and kept the size variable
        return "raobj 2 -1 %d" % rng.choice([CD + 1, 40960, 65536, 2 ** 31 - 1]), None
    if cls == "null-neg-size":
        return "raobj 2 -1 %d" % rng.choice([-1, INT_MIN]), None
    if cls == "valid":
        return "raobj 2 %d %d" % (CD, CD), CD
    if cls == "valid-large":
        n = rng.choice([CD + 1, 40000, 65536])
        return "raobj 2 %d %d" % (n, n), n
    if cls == "small":
        n = rng.randint(385, CD - 1)
        return "raobj 2 %d %d" % (n, n), n
    if cls == "tiny":
        n = rng.randint(1, 384)
        return "raobj 2 %d %d" % (n, n), n
    if cls == "neg-size":
        return "raobj 2 %d -1" % CD, CD
    if cls == "zero-size":
        return "raobj 2 %d 0" % CD, CD
    return "raobj 2 %d %d" % (CD, INT_MIN), CD


def requests(rng, n):
    out = []
    while len(out) < n:
        m = rng.choice(gen.METHODS)
        s, f = gen.gen_valid(rng, m)
        k = rng.random()
        if k < 0.3:
            s, lab = gen.mutate(rng, s, long_ok=False)
        elif k < 0.36 and m in ("yescrypt", "gost_yescrypt"):
            s = gen.gen_yes_unsupported(rng, m)       # parses, then fails inside the KDF
        p = gen.gen_phrase(rng, rng.choice([0, 8, 20, 100, 600 if k > 0.95 else 30]))
        if gen.cost_units(s, len(p)) > BUDGET:
            continue
        out.append((p, s))
    return out


# selections whose allocation paths differ: no default-capable method (crypt_gensalt_ra(NULL) must fail and
# free), a single method, the traditional ones only
CONFIGS = [("no-default", ["sha256crypt", "md5crypt", "descrypt"]), ("only-bcrypt", ["bcrypt"]),
           ("only-descrypt", ["descrypt"]), ("no-default-2", ["sunmd5", "nt", "bsdicrypt", "bigcrypt"])]


def do_histories(args):
    seeds, steps = args[:2]
    exe = args[2] if len(args) > 2 else None
    cfg = args[3] if len(args) > 3 else "all"
    acc = common.Acc()
    w = pool.Worker(exe) if exe else rt.vw(FL)
    for hs in seeds:
        rng = rt.rng_for(hs, PID)
        cls = START_CLASSES[hs % len(START_CLASSES)]
        sl, bs = start_line(rng, cls)
        setup = ["ledger 1"]
        lines = [sl]
        meta = [("start", cls)]
        for p, s in requests(rng, steps):
            if rng.random() < 0.06:
                # the allocator may refuse: the pair must stay sound then as well
                lines.append("fault 1")
                meta.append(("aux", None))
            lines.append(rt.crypt_line("crypt_ra", 2, p, s))
            meta.append(("ra", None))
            k = rng.random()
            if k < 0.08:
                # the caller legally frees and replaces its block
                lines.append("rafree 2")
                meta.append(("free", None))
                c2 = rng.choice(START_CLASSES)
                l2, _ = start_line(rng, c2)
                lines.append(l2)
                meta.append(("start", c2))
            elif k < 0.2:
                m = rng.choice(facts.GENSALT_METHODS + ["bcrypt_x", None, None])
                lines.append(rt.gensalt_line("ra", gen.TAG[m] if m else None, rng.choice([0, 0, 1, 99]),
                                             facts.rbytes_pattern("rnd", 32, hs), rng.choice([32, 32, 1]), 192))
                meta.append(("gra", m))
        # the default-method spelling once per history, in every configuration
        lines.append(rt.gensalt_line("ra", None, rng.choice([0, 0, 1, 5, 99]), facts.rbytes_pattern("rnd", 32, hs),
                                     rng.choice([32, 32, 1]), 192))
        meta.append(("gra", None))
        lines.append("rafree 2")
        meta.append(("final-free", None))
        rows = rt.run_resilient(w, setup, lines, stop_on_death=True)
        acc.count("histories")
        cur = cls
        for i, (ln, mt, r) in enumerate(zip(lines, meta, rows)):
            hist = setup + lines[:i + 1]
            if isinstance(r, Death):
                rt.death_violation(acc, PID, r, FL, ln, "history/" + cur, setup + lines[:i])
                break
            if not isinstance(r, dict):
                acc.inconc("timeout")
                break

            def viol(kind, detail):
                acc.violation("%s/%s/%s" % (PID, kind, cur), "start=%s step %d: %s :: %s -> %s" % (
                    cur, i, detail, ln[:160], {k: r.get(k) for k in ("d", "sz", "r", "e", "blk", "ev", "heap", "lerr", "az", "known")}),
                    rt.replay_obj(FL, hist))
            if mt[0] == "start":
                cur = mt[1]
                continue
            if mt[0] == "aux":
                continue
            acc.count("evaluations")
            if int(r.get("lerr", "0")) > 0:
                viol("ledger-error", "double free / free or realloc of an unknown pointer")
            if mt[0] == "ra":
                ev = r.get("ev", ".")
                grew = any(t.startswith("R") and not t.endswith("!") for t in ev.split(","))
                d, sz, blk = r["d"], int(r["sz"]), int(r.get("blk", "-1"))
                acc.cls((cur, "grow" if grew else "keep", "ok" if r["r"] == "O" else "fail"))
                acc.sets["pairs"].add((cur, "ok" if r["r"] == "O" else "fail", grew))
                if grew:
                    acc.count("grow_events")
                if r["r"] not in ("N", "O"):
                    viol("stray-pointer", "result is not data->output of the block")
                faulted = any(t.endswith("!") for t in ev.split(","))
                if faulted:
                    acc.count("faulted_calls")
                if d == "0":
                    if not (faulted and cur.startswith("null")):
                        viol("data-null", "*data is NULL after the call")
                    continue
                if blk < 0:
                    viol("data-not-live", "*data is not a live block known to the ledger")
                    continue
                if sz > blk:
                    viol("size-exceeds-block", "*size=%d but the block has %d bytes" % (sz, blk))
                if sz < CD and not faulted:
                    viol("size-too-small", "*size=%d < sizeof(struct crypt_data) after a completed call" % sz)
                if grew:
                    if r.get("az") != "1":
                        viol("not-zeroed-after-grow", "fields beyond output are not all zero in the new block")
                    for t in ev.split(","):
                        if t.startswith("R") and t.rstrip("!").endswith("n") and cur in ("small", "tiny"):
                            viol("not-erased-before-grow", "old block (recorded size = real size) not erased: " + t)
                else:
                    if d == "2":
                        viol("moved-without-realloc", "*data changed but no realloc was observed")
                cur_after = "valid"     # whatever it was, the pair is now a valid one
                cur = cur if not grew else cur_after
            elif mt[0] == "gra":
                acc.cls(("gensalt_ra", cfg, mt[1], r["r"]))
                acc.count("gensalt_ra_calls")
                acc.count("gensalt_ra/" + cfg)
                if r["r"] == "A":
                    if r.get("blk") != "192" or r.get("own") != "L":
                        viol("gensalt-ra-block", "result is not a live 192-byte library block")
                elif r["r"] != "N":
                    viol("gensalt-ra-pointer", "unexpected result kind")
            elif mt[0] in ("free", "final-free"):
                if r.get("known") == "0":
                    viol("caller-free-unknown", "*data handed back to the caller is not a live block")
            # after every step: the only library-owned heap block may be *data itself
            heap = int(r.get("heap", "0"))
            if mt[0] in ("free", "final-free") and heap != 0:
                viol("leak", "%d library-allocated blocks still live after the caller's free" % heap)
            if mt[0] == "gra" and heap > 1:
                viol("leak", "%d library-allocated blocks live after crypt_gensalt_ra + free" % heap)
            if mt[0] == "ra" and heap > 1:
                viol("leak", "%d library-allocated blocks live (only *data may be)" % heap)
            if int(r.get("maps", "0")) > 0:
                viol("mapping-leak", "%s library mappings still live after the call" % r.get("maps"))
        if len(acc.samples) < 2:
            acc.sample({"start": cls, "lines": lines[:5]})
    if exe:
        w.stop()
    return acc


def config_histories(args):
    """the same histories on a build with another --enable-hashes selection"""
    from . import C19
    (name, en), seeds, steps = args
    name, en, exe, err, _ = C19.build_config((PID + "-" + name, en))
    if exe is None:
        acc = common.Acc()
        acc.inconc("configuration %s does not build: %s" % (name, err[-300:]))
        return acc
    try:
        return do_histories((seeds, steps, exe, name[len(PID) + 1:]))
    finally:
        shutil.rmtree(os.path.dirname(exe), ignore_errors=True)


def run(tier):
    run_ = common.Run(PID, tier, "exploration")
    rt.prepare([FL, "ndebug"])
    nh, steps = (512, 12) if tier == "quick" else (10000, 20)
    seeds = [run_.seed * 1000003 + i for i in range(nh)]
    jobs = [(ch, steps) for ch in pool.chunks(seeds, max(1, nh // 32))]
    # the same ledger on a -O2 -DNDEBUG build (what an assert() wrapped is not executed there)
    nseeds = [run_.seed * 1000003 + 700000 + i for i in range(nh // 4)]
    jobs += [(ch, steps, rt.PATHS["vw-ndebug"], "ndebug") for ch in pool.chunks(nseeds, max(1, nh // 64))]
    for acc in pool.pmap(do_histories, jobs):
        run_.merge(acc)
    # "a non-NULL result points inside that block", as the compiler of a CALLER is told by the generated <crypt.h>:
    # an optimised consumer reaches the same bytes through the result and through *data (harness/vhdr.c)
    import subprocess
    hacc = common.Acc()
    for lvl in ("-O1", "-O2", "-O3"):
        hexe = rt.TREE.program("opt", "vhdr.c", name="vhdr-app" + lvl, wrap=False, extra_cflags=lvl, consumer=True)
        hp = subprocess.run([hexe], stdout=subprocess.PIPE, stderr=subprocess.PIPE, text=True, timeout=300)
        for ln in hp.stdout.splitlines():
            if ln.startswith("VIOL ") and "_ra-" in ln:
                t = ln.split(" ", 2)
                hacc.violation("%s/%s" % (PID, t[1]), "a program compiled %s against the generated <crypt.h>: %s" % (lvl, t[2]),
                               {"cmd": hexe})
        if hp.returncode not in (0, 1):
            hacc.violation(PID + "/header-consumer/died", "rc=%s %s" % (hp.returncode, hp.stderr[-300:]), {"cmd": hexe})
        else:
            hacc.count("evaluations", 10)
            hacc.count("optimised_header_consumer_runs")
            hacc.cls(("header-consumer", lvl))
    run_.merge(hacc)
    nc = 24 if tier == "quick" else 400
    cjobs = []
    for ci, c in enumerate(CONFIGS):
        cs = [run_.seed * 1000003 + 500000 + ci * 10000 + i for i in range(nc)]
        cjobs.append((c, cs, steps))
    for acc in pool.pmap(config_histories, cjobs):
        run_.merge(acc)
    a = run_.acc
    cov = {
        "rule": "history = start class (NULL/0, valid, larger, malloc'd too small, recorded size -1/0/INT_MIN) then "
                "%d crypt_ra calls with succeeding and failing requests, occasional legal free+replace by the caller "
                "and crypt_gensalt_ra calls, final free; the malloc/realloc/free ledger is consulted after every "
                "step; distinct = (start class, grew?, outcome) cells" % steps,
        "histories": int(a.n.get("histories", 0)),
        "grow_events": int(a.n.get("grow_events", 0)),
        "optimised_header_consumer_runs": int(a.n.get("optimised_header_consumer_runs", 0)),
        "gensalt_ra_calls": int(a.n.get("gensalt_ra_calls", 0)),
        "gensalt_ra_calls_per_configuration": {k[11:]: int(v) for k, v in a.n.items() if k.startswith("gensalt_ra/")},
        "other_configurations": [c[0] + "=" + ",".join(c[1]) for c in CONFIGS],
        "start_class_x_outcome_pairs": len(a.sets.get("pairs", ())),
        "flavour": FL + " + ledger",
    }
    return run_.finish(cov, assumptions=[
        "'erased before growing' is judged only when the recorded size equals the real block size "
        "(the library cannot erase more than it is told)"], min_conclusive=3000)
