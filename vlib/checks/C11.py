"""C11 - crypt_gensalt encodes the documented cost for every count
(DESIGN §4 C11).

The cost field of every generated setting is decoded by an independent decoder
and compared with the documented function of count; acceptance/refusal of each
count is compared with the documented ranges; and for affordable costs the
work crypt really does is tied to the decoded number through the reference
model evaluated at that number."""
from .. import common, decode, facts, gen, pool, rt
from ..pool import Death, Timeout

PID = "C11"
FL = "asan"
MODEL_BUDGET = 50000


def counts_for(rng, m, tier):
    cs = set(range(0, 41))
    for k in range(0, 65):
        for d in (-1, 0, 1):
            v = (1 << k) + d
            if 0 <= v < 2 ** 64:
                cs.add(v)
    for k in range(0, 20):
        for d in (-1, 0, 1):
            v = 10 ** k + d
            if 0 <= v < 2 ** 64:
                cs.add(v)
    cs.update(facts.interesting_counts(m))
    for b in (999, 1000, 999999999, 2 ** 24 - 1, 32768, 2 ** 32 - 65537, 2 ** 32 - 65536, 2 ** 32 - 4097, 262144):
        for d in (-1, 0, 1):
            cs.add(b + d)
    cs.add(2 ** 64 - 1)
    n = 150 if tier == "quick" else 6000
    for _ in range(n):
        cs.add(rng.getrandbits(rng.choice([8, 16, 24, 31, 32, 33, 48, 64])))
    return sorted(cs)


def model_seconds(fm, cost):
    """rough run time of the Python reference model at this cost"""
    if fm in ("sha256crypt", "sha512crypt"):
        return cost * 4e-6
    if fm == "sha1crypt":
        return cost * 4e-6
    if fm == "sunmd5":
        return (4096 + cost) * 9e-6
    if fm == "bsdicrypt":
        return cost * 8e-5
    if fm.startswith("bcrypt"):
        return 0.001 * (1 << max(cost - 4, 0))
    return 0.005


RB_PATTERNS = [bytes(64), b"\xff" * 64, b"\xf0\x00" + b"\x55" * 62, b"\x00\xff\xff\xff" + b"\xaa" * 60,
               b"\xff\xff\x00\x00" + b"\x33" * 60]


def make_cases(seed, tier):
    cases = []
    for m in gen.METHODS + [None]:
        fm = m or "yescrypt"
        rng = rt.rng_for(seed, PID, m)
        pats = RB_PATTERNS + [bytes(rng.getrandbits(8) for _ in range(64)) for _ in range(1 if tier == "quick" else 8)]
        for c in counts_for(rng, fm, tier):
            for pi, rb in enumerate(pats if tier == "thorough" or c < 50 else pats[:2] + pats[-1:]):
                cases.append((m, fm, c, rb))
    return cases


def do_chunk(chunk):
    acc = common.Acc()
    w = rt.vw(FL)
    # a stale errno must not survive a refusal, and must not turn a success into one
    setup = [rt.obj_line(0), "preerrno %d" % rt.stale_errno(int(chunk[0][2]) % 97 + len(chunk))]
    lines = [rt.gensalt_line("rn", gen.TAG[m] if m else None, c, rb, 64, 192) for (m, fm, c, rb) in chunk]
    rows = rt.run_resilient(w, setup, lines)
    rt.errno_independence(acc, PID, w, setup[:1], lines, rows, FL, (chunk[0][1] if chunk[0][0] else "NULL"))
    follow, fidx = [], []
    seen = set()
    nmodel = 0
    for (m, fm, c, rb), r, ln in zip(chunk, rows, lines):
        name = m or "NULL"
        acc.count("evaluations")
        if isinstance(r, Death):
            rt.death_violation(acc, PID, r, FL, ln, "gensalt/" + name)
            continue
        if not isinstance(r, dict):
            acc.inconc("timeout")
            continue

        def viol(kind, detail):
            acc.violation("%s/%s/%s" % (PID, kind, fm if m else "NULL"),
                          "prefix=%s count=%d rbytes=%s..: %s" % (name, c, rb[:4].hex(), detail),
                          rt.replay_obj(FL, [ln]))
        ok = r["r"] == "O"
        should = facts.count_accepted(fm, c)
        acc.cls((name, "accepted" if ok else "refused", min(c.bit_length(), 40)))
        if not ok:
            acc.count("refused")
            if should:
                viol("valid-count-refused", "documented-valid count refused (errno %s)" % r["e"])
            elif rt.errno_of(r) != rt.EINVAL:
                viol("errno", "out-of-range count must give EINVAL, got %s" % r["e"])
            continue
        acc.count("accepted")
        acc.count("acc/" + name)
        g = rt.out_of(r)
        if not should:
            viol("invalid-count-accepted", "count outside the documented range accepted: %r" % g)
            continue
        d = decode.decode(fm, g)
        if d is None:
            viol("undecodable", "generated setting %r does not have the documented shape" % g)
            continue
        exp = decode.expected_cost(fm, c, rb)
        acc.count("cost_decoded")
        if exp and d["cost"] != exp[1]:
            viol("wrong-cost", "decoded cost %r, documented function of count gives %r (setting %r)" % (
                d["cost"], exp[1], g))
            continue
        if fm in ("sha256crypt", "sha512crypt") and d["explicit"] != (d["cost"] != 5000):
            viol("rounds-spelling", "rounds= must be present exactly when the cost is not the default: %r" % g)
        if fm == "sunmd5" and 4096 + d["cost"] > 0xFFFFFFFF:
            # the work crypt does is (4096 + rounds) in 32-bit arithmetic: observed below
            follow.append(rt.crypt_line("crypt_rn", 0, b"pw", g))
            fidx.append(("wrap", fm, g, d["cost"], ln))
        elif fm not in ("yescrypt", "gost_yescrypt", "scrypt") and model_seconds(fm, d["cost"]) <= 0.5 \
                and g not in seen and nmodel + model_seconds(fm, d["cost"]) < 2.5:
            seen.add(g)
            nmodel += model_seconds(fm, d["cost"]) + 0.01
            follow.append(rt.crypt_line("crypt_rn", 0, b"pw", g))
            fidx.append(("model", fm, g, d["cost"], ln))
        if len(acc.samples) < 3:
            acc.sample({"prefix": name, "count": c, "generated": g.decode("latin1"), "decoded_cost": repr(d["cost"])})
    if follow:
        from .. import ref
        rows2 = rt.run_resilient(w, setup, follow, timeout=200)
        for (kind, fm, g, cost, gl), r, ln in zip(fidx, rows2, follow):
            if not isinstance(r, dict):
                if isinstance(r, Timeout) and kind == "wrap":
                    acc.inconc("wrap probe timed out")
                continue
            h = rt.hash_of(r)
            if kind == "wrap":
                eff = (4096 + cost) & 0xFFFFFFFF
                acc.count("wrap_probes")
                if h is not None and eff < 200000:
                    want = ref.sunmd5(b"pw", g, rounds_total=eff)
                    if h == want:
                        acc.violation("%s/rounds-wrap/sunmd5" % PID,
                                      "generated setting %r (rounds=%d) is hashed with only %d rounds: 4096 + rounds "
                                      "wraps modulo 2^32, below the documented minimum of 4096" % (g, cost, eff),
                                      rt.replay_obj(FL, [gl, ln]))
                continue
            acc.count("model_checks")
            acc.count("mc/" + fm)
            want = ref.model_hash(fm, b"pw", g)
            if want is None:
                continue
            if h != want:
                acc.violation("%s/applied-cost-differs/%s" % (PID, fm),
                              "crypt(%r) = %r but the reference model at the decoded cost %r gives %r" % (
                                  g, h, cost, want), rt.replay_obj(FL, [gl, ln]))
    return acc


def do_errno_sweep(args):
    """The cost a generated setting spells is the cost crypt applies, whatever errno holds on entry (the number
    parsers use strtoul, which reports overflow through errno): cheap explicit costs of the linear methods, hashed
    with errno preset to 0, ERANGE, EINVAL and ENOENT, against the reference model."""
    seed, = args
    from .. import ref
    acc = common.Acc()
    w = rt.vw(FL)
    rb = facts.rbytes_pattern("rnd", 64, seed)
    for m, counts in (("sha512crypt", (1000, 1999, 20000)), ("sha256crypt", (1000, 2001, 20000)), ("sha1crypt", (4, 100, 3000)),
                      ("sunmd5", (1, 100)), ("bsdicrypt", (1, 725, 4095))):
        for c in counts:
            res, end = w.run([rt.gensalt_line("rn", gen.TAG[m], c, rb, 64, 192)], 60)
            if end is not None or res[0]["r"] != "O":
                continue
            g = rt.out_of(res[0])
            if m == "sunmd5" and gen.cost_units(g, 2) > 3000000:
                continue
            want = ref.model_hash(m, b"pw", g)
            for e in (0, 34, 22, 2):
                ln = rt.crypt_line("crypt_rn", 0, b"pw", g)
                res2, end2 = w.run([rt.obj_line(0), "preerrno %d" % e, ln], 120)
                if end2 is not None:
                    acc.inconc("errno sweep: no answer for %r" % g)
                    continue
                acc.count("evaluations")
                acc.count("errno_sweep_hashes")
                acc.cls((m, "errno-sweep", e))
                h = rt.hash_of(res2[-1])
                if h is None or (want is not None and h != want):
                    acc.violation("%s/applied-cost-differs/%s" % (PID, m),
                                  "crypt(%r) with errno %d on entry gives %r, the reference model at the spelled cost gives %r" % (
                                      g, e, h, want), rt.replay_obj(FL, [rt.obj_line(0), "preerrno %d" % e, ln]))
    w.run(["preerrno 0"], 30)
    return acc


def do_lower_bound(args):
    """The top of the cost range cannot be hashed within any budget, but its opposite can be observed: a call that
    asks for 2^31 or more iterations and RETURNS A HASH within a few seconds has not done the work (no machine
    here performs 2 * 10^9 HMAC-SHA1 or 10^9 SHA-crypt rounds in that time).  A call still running at the deadline
    is what is expected; the worker is then discarded."""
    m, prefix, count, budget = args[:4]
    acc = common.Acc()
    w = pool.Worker(rt.PATHS["vw-opt"])
    rb = facts.rbytes_pattern(args[4] if len(args) > 4 else "rnd", 64, 5)
    res, end = w.run([rt.obj_line(0), rt.gensalt_line("rn", prefix, count, rb, 64, 192)], 60)
    if end is not None or res[1]["r"] != "O":
        w.stop()
        acc.inconc("lower bound: gensalt(%s, %d) failed" % (m, count))
        return acc
    g = rt.out_of(res[1])
    ln = rt.crypt_line("crypt_rn", 0, b"pw", g)
    res2, end2 = w.run([ln], budget)
    w.stop()
    acc.count("evaluations")
    acc.count("work_lower_bound_probes")
    acc.cls((m, "work-lower-bound", count > 2 ** 32))
    if end2 is None and rt.hash_of(res2[0]) is not None:
        acc.violation("%s/cost-not-applied/%s" % (PID, m),
                      "crypt_gensalt(%s, count=%d) gives %r, and crypt returns a hash for it within %d s: the "
                      "requested cost cannot have been applied" % (m, count, g, budget),
                      rt.replay_obj("opt", [rt.obj_line(0), ln]))
    elif end2 is None:
        # answered at once, without a hash: the very top of the documented range, as crypt_gensalt wrote it, is refused
        acc.violation("%s/generated-cost-refused/%s" % (PID, m),
                      "crypt_gensalt(%s, count=%d) gives %r, and crypt refuses it (errno %s)" % (m, count, g, res2[0].get("e")),
                      rt.replay_obj("opt", [rt.obj_line(0), ln]))
    elif isinstance(end2, pool.Death):
        acc.inconc("lower bound: worker died on %r" % g)
    return acc


def run(tier):
    run_ = common.Run(PID, tier, "exploration")
    rt.prepare([FL, "opt"])
    cases = make_cases(run_.seed, tier)
    lb = [("sha1crypt", b"$sha1", 3000000000, 4), ("sha1crypt", b"$sha1", 2 ** 64 - 1, 4),
          ("sha256crypt", b"$5$", 999999999, 4), ("sha512crypt", b"$6$", 2 ** 64 - 1, 4),
          ("bcrypt", b"$2b$", 31, 4),
          # random bytes that leave the requested number unperturbed: the documented maximum itself
          ("sha1crypt", b"$sha1", 2 ** 64 - 1, 4, "zero"), ("sha1crypt", b"$sha1", 2 ** 32 - 1, 4, "zero"),
          ("sha512crypt", b"$6$", 999999999, 4, "zero")]          # each needs minutes to days; margins of two orders of magnitude
    for acc in pool.pmap(do_lower_bound, lb):
        run_.merge(acc)
    for acc in pool.pmap(do_errno_sweep, [(run_.seed + i,) for i in range(2 if tier == "quick" else 16)]):
        run_.merge(acc)
    for acc in pool.pmap(do_chunk, pool.chunks(cases, 150)):
        run_.merge(acc)
    a = run_.acc
    cov = {
        "rule": "case = (prefix incl. NULL, count, 64 random bytes with the extremes of the randomised windows); "
                "counts: every value 0..40, all 2^k and 10^k +-1 up to 2^64-1, documented boundaries +-1, random "
                "8..64-bit values; decoded cost field compared with the documented function; distinct = (prefix, "
                "accepted/refused, bit length of count)",
        "accepted": int(a.n.get("accepted", 0)),
        "refused": int(a.n.get("refused", 0)),
        "cost_fields_decoded": int(a.n.get("cost_decoded", 0)),
        "applied_cost_checked_against_model": int(a.n.get("model_checks", 0)),
        "sunmd5_wrap_probes": int(a.n.get("wrap_probes", 0)),
        "hashes_of_generated_costs_under_four_entry_errnos": int(a.n.get("errno_sweep_hashes", 0)),
        "flavour": FL,
    }
    return run_.finish(cov, assumptions=[
        "the applied cost is tied to the decoded number through the reference models only for affordable costs "
        "(yescrypt/scrypt parameters are decoded, their work is judged by C02)"],
        min_conclusive=1500,
        required=dict([(m, a.n.get("acc/" + m, 0)) for m in facts.GENSALT_METHODS + ["NULL"]] +
                      [("model/" + m, a.n.get("mc/" + m, 0)) for m in facts.GENSALT_METHODS
                       if m not in ("yescrypt", "gost_yescrypt", "scrypt")]))
