"""C16 - digest/MAC/KDF primitives are the standard functions (DESIGN §4 C16).

harness/vprim.c drives the library's internal MD4/MD5/SHA-1/SHA-256/SHA-512/
Streebog/HMAC/PBKDF2 symbols (ASan+UBSan build) against libgcrypt in process:
every length up to the bound x every two-way split point, random multi-way
splits, key lengths 0..200, the PBKDF2 grid; message buffers are exact-size
heap blocks at all 16 offsets."""
import json
import subprocess

from .. import common, rt

PID = "C16"
FL = "asan"


def run(tier):
    run_ = common.Run(PID, tier, "exploration")
    rt.prepare([])
    exe = rt.TREE.program(FL, "vprim.c", name="vprim-" + FL, wrap=False, libs="-lgcrypt")
    import os
    env = dict(os.environ, ASAN_OPTIONS="abort_on_error=1:detect_leaks=0", UBSAN_OPTIONS="print_stacktrace=1:halt_on_error=1")
    # the seed only moves the message contents and the random splits; run a few
    # processes side by side with different sub-seeds in the thorough tier
    seeds = [run_.seed] if tier == "quick" else [run_.seed, run_.seed + 1000]
    # the same comparison on a build with -DNDEBUG (assertions compiled out where the tree allows it)
    runs = [(exe, s) for s in seeds]
    flavours = ["ndebug", "os", "v2"]
    with open("/proc/cpuinfo") as f:
        cpu = f.read()
    v3_ok = all((" " + x + " ") in cpu or (" " + x + "\n") in cpu for x in ("avx2", "bmi1", "bmi2", "fma", "movbe"))
    if v3_ok:
        flavours.append("v3")
    v4_ok = v3_ok and all((" " + x + " ") in cpu or (" " + x + "\n") in cpu for x in ("avx512f", "avx512bw", "avx512cd", "avx512dq", "avx512vl"))
    if v4_ok:
        flavours.append("v4")
    for k, fl in enumerate(flavours):
        runs.append((rt.TREE.program(fl, "vprim.c", name="vprim-" + fl, wrap=False, libs="-lgcrypt"), run_.seed + 7 + k))
    cmds = [[e, "cmp", tier, str(s)] for e, s in runs]
    # messages of 2^29 bytes and more (bit count beyond 32 bits) in one update call: -O2 build, one process per
    # algorithm; the thorough tier adds 2^32 bytes (byte count beyond 32 bits)
    opt_exe = rt.TREE.program("opt", "vprim.c", name="vprim-opt", wrap=False, libs="-lgcrypt")
    for a in range(7):
        # (MD4 and MD5 keep the count in two 32-bit words with hand-written carries - F11 was there: 2^32 in both tiers)
        for lg in (((29, 32) if a < 2 else (29,)) if tier == "quick" else (29, 31, 32)):
            cmds.append([opt_exe, "huge", str(run_.seed + a), str(lg), str(a)])
            runs.append((opt_exe, run_.seed + a))
    procs = []
    import time
    for c in cmds:
        procs.append(subprocess.Popen(c, stdout=subprocess.PIPE, stderr=subprocess.PIPE, text=True, env=env))
        if c[1] == "huge" and int(c[3]) >= 31:
            while sum(1 for p in procs if p.poll() is None) >= 8:      # a few GiB each: not all at once
                time.sleep(0.5)
    runs = [(" ".join(c[:1]), " ".join(c[1:])) for c in cmds]
    acc = common.Acc()
    stats = {}
    for (exe, s), p in zip(runs, procs):
        try:
            out, err = p.communicate(timeout=3000)
        except subprocess.TimeoutExpired:
            p.kill()
            acc.inconc("vprim cmp timed out")
            continue
        if p.returncode not in (0, 1):
            if "AddressSanitizer" in err or "runtime error" in err or p.returncode < 0:
                import re
                m = re.search(r"#\d+ 0x[0-9a-f]+ in (\S+) /repo/lib/(\S+)", err)
                acc.violation("%s/sanitizer/%s" % (PID, m.group(1) if m else "?"),
                              "sanitizer report or crash inside a primitive: " + err[:1500].replace("\n", " | "),
                              {"cmd": "%s %s" % (exe, s)})
            else:
                run_.harness_error("vprim exit %s: %s" % (p.returncode, err[-400:]))
            continue
        for ln in out.splitlines():
            if ln.startswith("VIOL "):
                _, what, detail = ln.split(" ", 2)
                acc.violation("%s/%s" % (PID, what), detail, {"cmd": "%s %s" % (exe, s)})
            elif ln.startswith("CLS "):
                acc.cls(tuple(ln.split()[1:]))
            elif ln.startswith("STAT "):
                d = json.loads(ln[5:])
                for k, v in d.items():
                    stats[k] = stats.get(k, 0) + v if k != "max_len" else v
    acc.count("evaluations", stats.get("comparisons", 0))
    run_.merge(acc)
    L = stats.get("max_len", 0)
    cov = {
        "rule": "comparison = (algorithm, message/key/salt contents from the seed, length, split points, buffer offset "
                "0..15, context offset) of the library primitive against libgcrypt; digests: every length 0..%d x every "
                "two-way split + random multi-way splits incl. zero-length updates; HMAC-SHA1/-SHA256 keys 0..200, "
                "HMAC-Streebog keys 32..64 (its stated domain); PBKDF2 grid dkLen 1..100 x c in {1,2,3,7,50} x salt "
                "0..80 x password lengths; distinct = (family, algorithm, workload) classes completed" % L,
        "exhaustive": tier == "thorough",
        "comparisons": stats.get("comparisons", 0),
        "contexts_checked_zero_after_final": stats.get("ctx_checks", 0),
        "pbkdf2_fast_path_cases": stats.get("pbkdf2_fast_path", 0),
        "pbkdf2_generic_path_cases": stats.get("pbkdf2_generic_path", 0),
        "max_length_with_all_two_way_splits": L,
        "samples": [{"algorithm": "sha512", "len": 129, "cut": 128, "offset": 1},
                    {"algorithm": "pbkdf2-sha256", "pwlen": 65, "saltlen": 52, "c": 1, "dkLen": 64}],
        "messages_of_2^29_bytes_and_more": stats.get("huge_messages", 0),
        "x86-64-v3_build_run": v3_ok,
        "x86-64-v4_build_run": v4_ok,
        "flavour": "gcc address+undefined, and -O2 -DNDEBUG, -Os, -O2 -march=x86-64-v2 / -v3 builds; oracle libgcrypt in process",
    }
    return run_.finish(cov, assumptions=[
        "libgcrypt (with a home-made RFC 2104 HMAC and RFC 8018 PBKDF2 built on its digests, cross-checked against "
        "gcry_md HMAC and gcry_kdf_derive) is the reference",
        "exhaustive (thorough) refers to the (length <= 1100, two-way split) grid per algorithm"],
        min_conclusive=100000)
