"""C13 - crypt_gensalt_rn honours output_size and never aborts (DESIGN §4 C13).

The grid output_size -2..256 x prefixes x count classes x nrbytes classes is
enumerated completely on the asan flavour; every buffer is an exact-size heap
block, so a write at or beyond output_size lands in a red zone."""
import os
import shutil

from .. import build, common, decode, facts, gen, pool, rt
from ..pool import Death, Timeout

PID = "C13"
FL = "asan"
SIZES = list(range(-2, 257))


# selections in which the generator code itself is compiled differently
CONFIGS = [("bigcrypt-no-descrypt", ["bigcrypt", "sha512crypt"]), ("descrypt-only", ["descrypt"]),
           ("gost-only", ["gost_yescrypt"]), ("scrypt-only", ["scrypt"]),
           ("no-default", ["sha256crypt", "md5crypt", "descrypt"]),
           # the method a NULL prefix selects is the strongest ENABLED one
           ("only-bcrypt", ["bcrypt", "md5crypt"]), ("glibc", ["descrypt", "md5crypt", "sha256crypt", "sha512crypt"])]
DEFAULT_FM = ["yescrypt"]


def columns(seed, tier, methods=None):
    cols = []
    for m in (methods if methods is not None else gen.METHODS + [None]):
        fm = m or DEFAULT_FM[0]
        prefix = gen.TAG[m] if m else None
        mn = facts.MIN_NRBYTES[fm]
        nrs = sorted(set([-2147483648, -1, 0, max(mn - 1, 0), mn, 16, 17, 64, 65, 100, 124, 200, 256]))
        if tier == "thorough" and methods is None:
            nrs = sorted(set(nrs) | set(range(0, 140)))
        counts = facts.interesting_counts(fm)
        if tier == "quick":
            # every class kept: 0, min, default, interior, power of ten, max
            counts = (counts[:7] + counts[-3:]) if len(counts) > 10 else counts
        for c in counts:
            for nr in nrs:
                for pat in (["rnd"] if tier == "quick" else ["rnd", "ff", "zero"]):
                    cols.append((m, prefix, c, nr, pat))
    return cols


def cfgless_des(s):
    """two salt characters (+ twelve dots in a bigcrypt-only build) - decode() knows both shapes"""
    return False


def judge_column(acc, col, rows, lines):
    m, prefix, count, nr, pat = col
    fm = m or DEFAULT_FM[0]
    name = m or "NULL"
    ref = rows[0]          # size 192 (4096 when nrbytes > 64)
    refsz = 192 if nr <= 64 else 4096
    what = "%s/count=%d/nrbytes=%d" % (name, count, nr)

    def viol(kind, detail, i):
        acc.violation("%s/%s/%s" % (PID, kind, name),
                      "%s %s: %s" % (what, detail, lines[i][:200]),
                      rt.replay_obj(FL, [lines[0], lines[i]], detail))

    if isinstance(ref, Death):
        rt.death_violation(acc, PID, ref, FL, lines[0], "%s/size-192" % name)
        acc.count("deaths")
        return
    if isinstance(ref, Timeout) or ref is None:
        acc.inconc("timeout %s size=192" % what)
        return
    ref_ok = ref["r"] == "O"
    ref_s = rt.out_of(ref) if ref_ok else None
    args_valid = facts.count_accepted(fm, count) and nr >= facts.MIN_NRBYTES[fm] and m != "bcrypt_x"
    if args_valid and nr <= 64 and not ref_ok:
        viol("fail-at-192", "valid arguments fail with a %d-byte buffer (errno %s)" % (192, ref["e"]), 0)
    if not facts.count_accepted(fm, count) and ref_ok:
        # acceptance of out-of-range counts is C11's business; here only shape
        pass
    first_ok = None
    for i, (size, r) in enumerate(zip([refsz] + SIZES, rows)):
        if i == 0:
            continue
        acc.count("evaluations")
        if isinstance(r, Death):
            key = rt.death_violation(acc, PID, r, FL, lines[i], "%s/size-class-%s" % (
                name, "neg" if size <= 0 else "pos"))
            acc.count("deaths")
            continue
        if isinstance(r, Timeout) or r is None:
            acc.inconc("timeout %s size=%d" % (what, size))
            continue
        acc.cls((name, count, nr, min(size, 64) if size < 64 else (64 if size < 192 else 192)))
        e = rt.errno_of(r)
        if r["r"] == "X":
            viol("bad-pointer", "returned pointer is not the output buffer, size=%d" % size, i)
            continue
        if r["r"] == "O":
            s = rt.out_of(r)
            if size <= 0:
                viol("success-nonpositive-size", "size=%d" % size, i)
                continue
            if r["nul"] != "1" or len(s) >= size:
                viol("no-nul", "size=%d len=%d" % (size, len(s)), i)
            if gen.has_bad_chars(s) or s[:1] == b"*":
                viol("bad-chars", "size=%d result=%r" % (size, s), i)
            dd = decode.decode(fm, s)
            if fm != "nt" and (dd is None or not dd["salt"]) and not (m == "bigcrypt" and cfgless_des(s)):
                viol("success-without-valid-setting", "size=%d: returns %r, which is not a complete setting of the method "
                                                      "(errno %s)" % (size, s, r.get("e")), i)
            if not ref_ok:
                viol("success-where-192-fails", "size=%d result=%r" % (size, s), i)
            elif size >= refsz and s != ref_s:
                viol("differs-from-192", "size=%d %r vs %r" % (size, s, ref_s), i)
            elif not ref_s.startswith(s):
                viol("not-a-leading-part", "size=%d %r vs %r" % (size, s, ref_s), i)
            if first_ok is None:
                first_ok = size
            acc.count("successes")
        else:
            acc.count("failures")
            if e not in (rt.ERANGE, rt.EINVAL):
                viol("errno", "size=%d errno=%d" % (size, e), i)
            if ref_ok and size >= refsz:
                viol("fail-above-192", "size=%d errno=%d" % (size, e), i)
            if ref_ok and e != rt.ERANGE and size < refsz:
                viol("errno-not-erange", "size=%d: same arguments succeed at 192 but errno=%d" % (size, e), i)
            if first_ok is not None:
                viol("non-monotone", "success at size %d, failure at %d" % (first_ok, size), i)
            if size >= 1:
                tok = rt.out_of(r)
                want = b"*0" if size >= 3 else (b"*" if size == 2 else b"")
                if r["nul"] != "1" or tok != want:
                    viol("token", "size=%d buffer holds %r, want %r" % (size, tok, want), i)


def do_chunk(chunk, exe=None, cfg=None):
    acc = common.Acc()
    w = pool.Worker(exe) if exe else rt.vw(FL)
    for col in chunk:
        m, prefix, count, nr, pat = col
        rb = facts.rbytes_pattern(pat, nr, seed=count)
        # reference: the documented size; for more than 64 random bytes (where 192 need not suffice) a large buffer
        refsz = 192 if nr <= 64 else 4096
        lines = [rt.gensalt_line("rn", prefix, count, rb, nr, sz) for sz in [refsz] + SIZES]
        rows = rt.run_resilient(w, ["preerrno %d" % rt.stale_errno(count % 89 + (nr if nr > 0 else 3))], lines, max_deaths=8)
        judge_column(acc, col, rows, lines)
        if isinstance(rows[0], dict):
            rt.errno_independence(acc, PID, w, [], lines, rows, FL, (m or "NULL") + (("@" + cfg) if cfg else ""),
                                  values=((34,) if (count + nr) % 2 else (22,)))
        if cfg:
            acc.count("cfg/" + cfg, len(lines) - 1)
        if len(acc.samples) < 3 and rows and isinstance(rows[0], dict):
            acc.sample({"prefix": (prefix or b"(NULL)").decode(), "count": count, "nrbytes": nr,
                        "size192": (rt.out_of(rows[0]) or b"").decode("latin1"),
                        "first_success_size": next((s for s, r in zip(SIZES, rows[1:])
                                                    if isinstance(r, dict) and r["r"] == "O"), None)})
    if exe:
        w.stop()
    return acc


def do_config(args):
    """the grid for the enabled methods of another --enable-hashes selection (ASan build of that selection)"""
    from . import C19
    (name, en), seed, tier = args
    bname, en, exe, err, _ = C19.build_config((PID + "-" + name, en, None,
                                               "-O1 -g -fno-omit-frame-pointer -fsanitize=address,undefined "
                                               "-fno-sanitize-recover=all"))
    if exe is None:
        acc = common.Acc()
        acc.inconc("configuration %s does not build: %s" % (name, err[-300:]))
        return acc
    try:
        dflt = next((m for m in ("yescrypt", "bcrypt", "sha512crypt") if m in en), None)
        DEFAULT_FM[0] = dflt or "yescrypt"
        try:
            acc = do_chunk(columns(seed, tier, list(en) + ([None] if dflt else [])), exe, name)
        finally:
            DEFAULT_FM[0] = "yescrypt"
        if not any(m in en for m in ("yescrypt", "bcrypt", "sha512crypt")):
            # no default method in this build: a NULL prefix must fail with EINVAL and, like every failure, leave
            # the token in the buffer
            w = pool.Worker(exe)
            lines = [rt.gensalt_line("rn", None, 0, facts.rbytes_pattern("rnd", 16), 16, sz) for sz in range(1, 64)]
            rows = rt.run_resilient(w, ["preerrno 2"], lines)
            w.stop()
            for sz, r, ln in zip(range(1, 64), rows, lines):
                if not isinstance(r, dict):
                    continue
                acc.count("evaluations")
                acc.cls(("NULL", "no-default", min(sz, 4)))
                want = b"*0" if sz >= 3 else (b"*" if sz == 2 else b"")
                if r["r"] != "N" or rt.errno_of(r) not in (rt.EINVAL, rt.ERANGE) or r.get("nul") != "1" or rt.out_of(r) != want:
                    acc.violation("%s/token/NULL" % PID, "NULL prefix, size=%d: r=%s errno=%s buffer holds %r, want NULL with "
                                                         "EINVAL/ERANGE and %r" % (sz, r["r"], r.get("e"), rt.out_of(r), want),
                                  rt.replay_obj(FL, [ln]))
                    break
    finally:
        shutil.rmtree(os.path.dirname(exe), ignore_errors=True)
    # keys of another configuration are told apart
    for v in acc.viol:
        v["key"] = v["key"] + "@" + name
        v["detail"] = "[--enable-hashes=%s] %s" % (",".join(en), v["detail"])
    return acc


def do_fortify(chunk):
    """the grid on a -D_FORTIFY_SOURCE=2 build (sizes up to 256, i.e. beyond the library's own 192-byte temporaries)"""
    acc = do_chunk(chunk, rt.PATHS["vw-fortify"], "fortify")
    for v in acc.viol:
        v["key"] = v["key"] + "@fortify"
        v["detail"] = "[-O2 -D_FORTIFY_SOURCE=2] " + v["detail"]
    return acc


def do_large(args):
    """random larger sizes, each with a real block of exactly that size"""
    seed, n = args
    acc = common.Acc()
    w = rt.vw(FL)
    rng = rt.rng_for(seed, PID, "large")
    lines = []
    meta = []
    for i in range(n):
        m = rng.choice(gen.METHODS + [None])
        fm = m or "yescrypt"
        c = rng.choice(facts.interesting_counts(fm))
        nr = rng.choice([facts.MIN_NRBYTES[fm], 16, 64, 200, 256])
        size = rng.choice([257, 300, 383, 384, 1000, 4096, 65536, rng.randint(257, 65536)])
        rb = facts.rbytes_pattern("rnd", nr, seed=i)
        lines.append(rt.gensalt_line("rn", gen.TAG[m] if m else None, c, rb, nr, 192))
        lines.append(rt.gensalt_line("rn", gen.TAG[m] if m else None, c, rb, nr, size))
        meta.append((m or "NULL", c, nr, size))
    rows = rt.run_resilient(w, ["preerrno %d" % rt.stale_errno(seed)], lines)
    for k, (name, c, nr, size) in enumerate(meta):
        a, b = rows[2 * k], rows[2 * k + 1]
        acc.count("evaluations")
        if isinstance(b, Death):
            rt.death_violation(acc, PID, b, FL, lines[2 * k + 1], name + "/large")
            continue
        if not isinstance(a, dict) or not isinstance(b, dict):
            acc.inconc("timeout large")
            continue
        acc.cls((name, "large", size > 4096))
        if nr > 64 and a["r"] == "N" and rt.errno_of(a) == rt.ERANGE:
            # more than 64 random bytes may legitimately need more than
            # CRYPT_GENSALT_OUTPUT_SIZE; only the shape of the larger result is judged
            s = rt.out_of(b)
            if b["r"] == "O" and (b["nul"] != "1" or gen.has_bad_chars(s) or len(s) >= size):
                acc.violation("%s/large-shape/%s" % (PID, name), "%s size=%d: %r" % (name, size, s),
                              rt.replay_obj(FL, lines[2 * k:2 * k + 2]))
            continue
        if (a["r"], a["o"]) != (b["r"], b["o"]) or (a["r"] == "N" and a["e"] != b["e"]):
            acc.violation("%s/large-differs/%s" % (PID, name),
                          "%s count=%d nrbytes=%d size=%d: %s vs size 192: %s" % (name, c, nr, size, b, a),
                          rt.replay_obj(FL, lines[2 * k:2 * k + 2]))
    return acc


def run(tier):
    run_ = common.Run(PID, tier, "exploration")
    rt.prepare([FL, "fortify"])
    cols = columns(run_.seed, tier)
    for acc in pool.pmap(do_chunk, pool.chunks(cols, 6)):
        run_.merge(acc)
    fcols = [c for c in cols if c[3] in (16, 64)]
    for acc in pool.pmap(do_fortify, pool.chunks(fcols if tier == "thorough" else fcols[::3], 6)):
        run_.merge(acc)
    for acc in pool.pmap(do_config, [(c, run_.seed, tier) for c in CONFIGS]):
        run_.merge(acc)
    nl = 2000 if tier == "quick" else 100000
    for acc in pool.pmap(do_large, [(run_.seed * 100 + i, nl // 16) for i in range(16)]):
        run_.merge(acc)
    a = run_.acc
    cov = {
        "rule": "grid cell = (prefix or NULL, count class, nrbytes class, rbytes pattern, output_size in -2..256), "
                "each executed with an exact-size output block under ASan and compared with the same arguments at "
                "size 192; distinct = (prefix, count, nrbytes, size bucket) cells judged; plus random sizes up to 65536",
        "exhaustive": True,
        "grid_columns": len(cols),
        "sizes_per_column": len(SIZES),
        "successes": int(a.n.get("successes", 0)),
        "failures": int(a.n.get("failures", 0)),
        "process_deaths": int(a.n.get("deaths", 0)),
        "grid_cells_in_other_configurations": {k[4:]: int(v) for k, v in a.n.items() if k.startswith("cfg/")},
        "flavour": FL,
    }
    return run_.finish(cov, assumptions=[
        "a size argument larger than the real buffer is a caller error and is never generated",
        "exhaustive refers to the stated grid, not to all counts/rbytes"],
        min_conclusive=10000)
