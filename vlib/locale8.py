"""A private single-byte (ISO-8859-1 like) locale built with localedef: programs such as login, su, passwd call
setlocale (LC_ALL, "") before they hash, and <ctype.h> classification then depends on that locale.  No system
locale package is needed; the compiled locale is cached next to the build cache."""
import hashlib
import os
import subprocess

from . import build

NAME = "xx_XX"

SRC = """comment_char %
escape_char /
LC_CTYPE
upper <U0041>..<U005A>;<U00C0>..<U00D6>;<U00D8>..<U00DE>
lower <U0061>..<U007A>;<U00DF>..<U00F6>;<U00F8>..<U00FF>
digit <U0030>..<U0039>
space <U0009>..<U000D>;<U0020>
cntrl <U0000>..<U001F>;<U007F>..<U009F>
punct <U0021>..<U002F>;<U003A>..<U0040>;<U005B>..<U0060>;<U007B>..<U007E>;<U00A1>..<U00BF>;<U00D7>;<U00F7>
xdigit <U0030>..<U0039>;<U0041>..<U0046>;<U0061>..<U0066>
blank <U0009>;<U0020>
END LC_CTYPE
"""


def charmap():
    out = ["<code_set_name> XLATIN1", "<comment_char> %", "<escape_char> /", "<mb_cur_min> 1", "<mb_cur_max> 1", "CHARMAP"]
    out += ["<U%04X> /x%02x" % (i, i) for i in range(256)]
    out.append("END CHARMAP")
    return "\n".join(out) + "\n"


def ensure():
    """-> LOCPATH directory holding the compiled locale NAME, or None when localedef cannot build it"""
    h = hashlib.sha256((SRC + charmap()).encode()).hexdigest()[:12]
    d = os.path.join(build.CACHE_ROOT, "locale-" + h)
    if os.path.exists(os.path.join(d, NAME, "LC_CTYPE")):
        return d
    tmp = d + ".tmp%d" % os.getpid()
    os.makedirs(tmp, exist_ok=True)
    with open(os.path.join(tmp, "latin.charmap"), "w") as f:
        f.write(charmap())
    with open(os.path.join(tmp, "xx.src"), "w") as f:
        f.write(SRC)
    subprocess.run(["localedef", "-c", "-i", os.path.join(tmp, "xx.src"), "-f", os.path.join(tmp, "latin.charmap"),
                    os.path.join(tmp, NAME)], stdout=subprocess.DEVNULL, stderr=subprocess.DEVNULL)
    if not os.path.exists(os.path.join(tmp, NAME, "LC_CTYPE")):
        import shutil
        shutil.rmtree(tmp, ignore_errors=True)
        return None
    try:
        os.rename(tmp, d)
    except OSError:
        import shutil
        shutil.rmtree(tmp, ignore_errors=True)
    return d if os.path.exists(os.path.join(d, NAME, "LC_CTYPE")) else None
