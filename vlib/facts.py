"""Documented facts about crypt_gensalt per method, written from doc/crypt.5,
doc/crypt_gensalt.3 and the property statements (C10-C13) - independent of
the library sources' arithmetic."""
from . import gen

U32 = 0xFFFFFFFF

# minimum number of random bytes below which no salt can be made (EINVAL)
MIN_NRBYTES = {
    "descrypt": 2, "bigcrypt": 2, "bsdicrypt": 3, "md5crypt": 3,
    "sha256crypt": 3, "sha512crypt": 3, "sha1crypt": 16, "sunmd5": 8, "nt": 0,
    "bcrypt": 16, "bcrypt_a": 16, "bcrypt_y": 16, "bcrypt_x": 16,
    "scrypt": 16, "yescrypt": 16, "gost_yescrypt": 16,
}

# standard salt size in characters, reached with >= 16 random bytes and a
# CRYPT_GENSALT_OUTPUT_SIZE buffer (property C12)
STD_SALT_CHARS = {
    "descrypt": 2, "bigcrypt": 2, "bsdicrypt": 4, "md5crypt": 8, "sunmd5": 8,
    "sha1crypt": 12, "sha256crypt": 16, "sha512crypt": 16,
    "bcrypt": 22, "bcrypt_a": 22, "bcrypt_y": 22, "bcrypt_x": 22,
    "scrypt": 22, "yescrypt": 22, "gost_yescrypt": 22,
}
# minimum salt size crypt(5) documents (characters)
MIN_SALT_CHARS = {
    "descrypt": 2, "bigcrypt": 2, "bsdicrypt": 4, "md5crypt": 1, "sunmd5": 1,
    "sha1crypt": 1, "sha256crypt": 1, "sha512crypt": 1,
    "bcrypt": 22, "bcrypt_a": 22, "bcrypt_y": 22, "bcrypt_x": 22,
    "scrypt": 1, "yescrypt": 1, "gost_yescrypt": 1,
}

GENSALT_METHODS = [m for m in gen.METHODS if m != "bcrypt_x"]   # $2x$ has no gensalt


def count_accepted(method, count):
    """Is `count` a documented-valid cost for crypt_gensalt?"""
    if method in ("md5crypt", "nt", "descrypt", "bigcrypt"):
        return count == 0
    if method in ("bcrypt", "bcrypt_a", "bcrypt_y"):
        return count == 0 or 4 <= count <= 31
    if method == "bcrypt_x":
        return False
    if method in ("yescrypt", "gost_yescrypt"):
        return 0 <= count <= 11
    if method == "scrypt":
        return count == 0 or 6 <= count <= 11
    return True      # linear-cost methods clamp


def interesting_counts(method):
    """count classes for the grids: 0, minimum, default, interior, power of ten, maximum, the out-of-range
    neighbours, and (last three) values whose low 32 bits are a valid count - `unsigned long` is 64 bits wide here,
    a cost kept in a 32-bit variable must not make them acceptable"""
    base = _interesting_counts(method)
    v = {"bcrypt": 12, "bcrypt_a": 12, "bcrypt_y": 12, "bcrypt_x": 12, "yescrypt": 5, "gost_yescrypt": 5, "scrypt": 7,
         "sha256crypt": 5000, "sha512crypt": 5000, "bsdicrypt": 725, "sha1crypt": 262144, "sunmd5": 40000}.get(method, 1000)
    lo = {"bcrypt": 4, "bcrypt_a": 4, "bcrypt_y": 4, "bcrypt_x": 4, "yescrypt": 1, "gost_yescrypt": 1, "scrypt": 6}.get(method, v)
    return base + [2 ** 32 + v, 2 ** 33 + lo, 2 ** 64 - 2 ** 32 + v]


def _interesting_counts(method):
    if method in ("md5crypt", "nt", "descrypt", "bigcrypt"):
        return [0, 1, 2, 1000]
    if method in ("bcrypt", "bcrypt_a", "bcrypt_y", "bcrypt_x"):
        return [0, 3, 4, 5, 10, 12, 31, 32, 100]
    if method in ("yescrypt", "gost_yescrypt"):
        return [0, 1, 2, 3, 5, 10, 11, 12, 100]
    if method == "scrypt":
        return [0, 1, 5, 6, 7, 10, 11, 12, 100]
    if method in ("sha256crypt", "sha512crypt"):
        return [0, 1, 999, 1000, 1001, 4999, 5000, 5001, 9999, 10000, 10001, 100000,
                99999999, 100000000, 999999999, 1000000000, 2 ** 32, 2 ** 64 - 1]
    if method == "bsdicrypt":
        return [0, 1, 2, 725, 1000, 4095, 2 ** 24 - 2, 2 ** 24 - 1, 2 ** 24, 2 ** 32, 2 ** 64 - 1]
    if method == "sha1crypt":
        return [0, 1, 3, 4, 5, 100, 1000, 262144, 10 ** 6, 2 ** 32 - 1, 2 ** 32, 2 ** 64 - 1]
    if method == "sunmd5":
        return [0, 1, 4096, 32767, 32768, 32769, 100000, 10 ** 9, 2 ** 32 - 65537,
                2 ** 32 - 65536, 2 ** 32 - 1, 2 ** 32, 2 ** 64 - 1]
    return [0]


def rbytes_pattern(kind, n, seed=0):
    if n <= 0:
        return b""
    if kind == "zero":
        return b"\x00" * n
    if kind == "ff":
        return b"\xff" * n
    if kind == "inc":
        return bytes((i * 37 + 11) & 0xFF for i in range(n))
    import random
    r = random.Random("rb/%s/%d%s" % (seed, n, "" if kind == "rnd" else "/" + kind))
    return bytes(r.getrandbits(8) for _ in range(n))
