"""Verdict discipline, evidence, replay files, known findings (DESIGN §6)."""
import collections
import fnmatch
import json
import os
import re
import sys
import time

VERIF = os.path.dirname(os.path.dirname(os.path.abspath(__file__)))
EVIDENCE_DIR = os.environ.get("VERIF_EVIDENCE_DIR") or os.path.join(VERIF, "evidence")
REPLAY_DIR = os.environ.get("VERIF_REPLAY_DIR") or os.path.join(VERIF, "replays")
KNOWN_FILE = os.path.join(VERIF, "known-findings.json")


def seed_from_env():
    try:
        return int(os.environ.get("VERIF_SEED", "1"))
    except ValueError:
        return 1


class Acc:
    """Picklable accumulator returned by pool children and merged by the
    parent: counters, distinct classes, violations, samples."""

    def __init__(self):
        self.n = collections.Counter()
        self.classes = set()
        self.viol = []          # dicts: key, detail, replay
        self.samples = []
        self.inconclusive = []  # short texts
        self.sets = collections.defaultdict(set)

    def count(self, k, d=1):
        self.n[k] += d

    def cls(self, c):
        self.classes.add(c)

    def violation(self, key, detail, replay=None):
        # keep at most 3 witnesses per key per accumulator
        if sum(1 for v in self.viol if v["key"] == key) < 3:
            self.viol.append({"key": key, "detail": detail, "replay": replay})
        self.n["violations_raw"] += 1

    def sample(self, s, cap=6):
        if len(self.samples) < cap:
            self.samples.append(s)

    def inconc(self, text):
        self.n["inconclusive"] += 1
        if len(self.inconclusive) < 10:
            self.inconclusive.append(text)

    def merge(self, o):
        self.n.update(o.n)
        self.classes |= o.classes
        for v in o.viol:
            if sum(1 for x in self.viol if x["key"] == v["key"]) < 3:
                self.viol.append(v)
        for s in o.samples:
            if len(self.samples) < 12:
                self.samples.append(s)
        for t in o.inconclusive:
            if len(self.inconclusive) < 20:
                self.inconclusive.append(t)
        for k, v in o.sets.items():
            self.sets[k] |= v
        return self


def load_known():
    try:
        with open(KNOWN_FILE) as f:
            return json.load(f).get("findings", [])
    except FileNotFoundError:
        return []


def safe_name(s):
    return re.sub(r"[^A-Za-z0-9_.-]+", "_", s)[:120]


class Run:
    def __init__(self, pid, tier, level):
        self.pid = pid
        self.tier = tier
        self.level = level
        self.seed = seed_from_env()
        self.t0 = time.time()
        self.acc = Acc()
        self.harness_errors = []

    def merge(self, acc):
        self.acc.merge(acc)

    def harness_error(self, text):
        self.harness_errors.append(text)

    def finish(self, coverage, assumptions=(), min_conclusive=1, conclusive=None, required=None):
        """Write evidence, print verdict lines, return exit status."""
        acc = self.acc
        known = [k for k in load_known() if k.get("property") == self.pid]
        bykey = collections.OrderedDict()
        for v in acc.viol:
            bykey.setdefault(v["key"], []).append(v)
        unlisted = 0
        lines = []
        for key, vs in bykey.items():
            match = None
            for k in known:
                if k.get("status") == "known" and fnmatch.fnmatchcase(key, k["key"]):
                    match = k
                    break
            if match:
                lines.append("KNOWN-FINDING: property=%s %s [%s] witness: %s" % (
                    self.pid, match.get("text", ""), key, vs[0]["detail"][:300]))
                continue
            unlisted += 1
            if unlisted > 12:
                continue
            os.makedirs(os.path.join(REPLAY_DIR, self.pid), exist_ok=True)
            path = os.path.join(REPLAY_DIR, self.pid,
                                "%s-%d.json" % (safe_name(key), self.seed))
            with open(path, "w") as f:
                json.dump({"property": self.pid, "key": key, "seed": self.seed,
                           "tier": self.tier, "witnesses": vs}, f, indent=1)
            lines.append("VIOLATION property=%s replay=%s key=%s :: %s" % (
                self.pid, path, key, vs[0]["detail"][:400]))
        wall = time.time() - self.t0
        cov = dict(coverage)
        cov.setdefault("evaluations", int(acc.n.get("evaluations", 0)))
        cov.setdefault("distinct_nontrivial", len(acc.classes))
        cov.setdefault("samples", acc.samples[:8] or ["(none)"])
        cov["inconclusive"] = int(acc.n.get("inconclusive", 0))
        if acc.inconclusive:
            cov["inconclusive_examples"] = acc.inconclusive[:5]
        cov["counters"] = {k: int(v) for k, v in sorted(acc.n.items())}
        cov["violation_keys"] = list(bykey.keys())[:50]
        ev = {
            "property_id": self.pid, "tier": self.tier, "seed": self.seed,
            "level": self.level, "coverage": cov,
            "assumptions": list(assumptions), "wall_s": round(wall, 2),
            "violations": unlisted,
        }
        os.makedirs(EVIDENCE_DIR, exist_ok=True)
        tmp = os.path.join(EVIDENCE_DIR, ".%s.json.tmp%d" % (self.pid, os.getpid()))
        with open(tmp, "w") as f:
            json.dump(ev, f, indent=1, sort_keys=True, default=str)
            f.write("\n")
        os.replace(tmp, os.path.join(EVIDENCE_DIR, self.pid + ".json"))
        for ln in lines:
            print(ln)
        if unlisted > 12:
            print("... %d more violation keys not printed (listed in the evidence file)" % (unlisted - 12))
        ncon = conclusive if conclusive is not None else cov["evaluations"]
        print("%s %s seed=%d: evaluations=%d distinct=%d violations=%d known=%d "
              "inconclusive=%d wall=%.1fs" % (
                  self.pid, self.tier, self.seed, cov["evaluations"],
                  cov["distinct_nontrivial"], unlisted,
                  len(bykey) - unlisted, cov["inconclusive"], wall))
        sys.stdout.flush()
        if unlisted:
            return 1
        if self.harness_errors:
            for h in self.harness_errors[:5]:
                print("HARNESS-ERROR: " + h, file=sys.stderr)
            return 2
        missing = [k for k, v in (required or {}).items() if not v]
        if missing:
            print("HARNESS-ERROR: nothing conclusive observed for required classes: %s" % missing,
                  file=sys.stderr)
            return 2
        if ncon < min_conclusive or cov["distinct_nontrivial"] < 2:
            print("HARNESS-ERROR: too few conclusive observations (%d < %d)" % (
                ncon, min_conclusive), file=sys.stderr)
            return 2
        return 0
