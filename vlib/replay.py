"""replay: re-execute the worker lines recorded in a replay file."""
import json
import sys

from . import pool, rt


def main(path):
    with open(path) as f:
        rp = json.load(f)
    print("property:", rp.get("property"), "key:", rp.get("key"))
    rc = 0
    for w in rp.get("witnesses", []):
        print("detail:", w.get("detail"))
        r = w.get("replay")
        if r and "fuzz_input_hex" in r:
            import os, subprocess
            from .checks import C04
            rt.prepare([])
            exe = C04.fuzz_exe(rt.TREE)
            d = rt.TREE.scratch("replay")
            f = os.path.join(d, "input")
            with open(f, "wb") as fh:
                fh.write(bytes.fromhex(r["fuzz_input_hex"]))
            p = subprocess.run([exe, f], stdout=subprocess.PIPE, stderr=subprocess.STDOUT, text=True,
                               env=dict(os.environ, **C04.FUZZ_ENV))
            print(p.stdout[-3000:])
            rc = rc or (1 if p.returncode else 0)
            import shutil
            shutil.rmtree(d, ignore_errors=True)
            continue
        if not r or "lines" not in r:
            print("  (no worker lines recorded: %s)" % (r,))
            continue
        fl = r["flavour"]
        if fl == "sys":
            rt.prepare([], sys_worker=True)
        else:
            rt.prepare([fl])
        wk = pool.Worker(rt.PATHS["vw-" + fl])
        res, end = wk.run(r["lines"], 600)
        for ln, rs in zip(r["lines"], res):
            print("  >", ln[:200])
            print("  <", rs)
        if end is not None:
            if isinstance(end, pool.Death):
                print("  worker died:", end.kind(), end.frame())
                print(end.brief())
            else:
                print("  watchdog timeout on", r["lines"][end.line][:200])
            rc = 1
        wk.stop()
        if r.get("note"):
            print("  note:", r["note"][:2000])
    return rc
