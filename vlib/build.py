"""Build layer (DESIGN §3.1): materialise the *current working tree* of /repo
as sanitizer / plain / shared-object flavours in a content-addressed cache
outside /repo, /verif and /tmp."""
import fcntl
import hashlib
import os
import re
import shutil
import subprocess
import sys
import time

REPO = os.environ.get("VERIF_REPO", "/repo")
VERIF = os.path.dirname(os.path.dirname(os.path.abspath(__file__)))
HARNESS = os.path.join(VERIF, "harness")
CACHE_ROOT = os.environ.get("VERIF_CACHE", "/var/tmp/verif-cache")
GUARD = "LIBXCRYPT_VERIF"
NPROC = min(16, os.cpu_count() or 1)

LIB_SOURCES = """alg-des-tables.c alg-des.c alg-gost3411-2012-core.c
alg-gost3411-2012-hmac.c alg-hmac-sha1.c alg-md4.c alg-md5.c alg-sha1.c
alg-sha256.c alg-sha512.c alg-yescrypt-common.c alg-yescrypt-opt.c
crypt-bcrypt.c crypt-des.c crypt-gensalt-static.c crypt-gost-yescrypt.c
crypt-md5.c crypt-nthash.c crypt-pbkdf1-sha1.c crypt-scrypt.c crypt-sha256.c
crypt-sha512.c crypt-static.c crypt-sunmd5.c crypt-yescrypt.c crypt.c
util-base64.c util-gensalt-sha.c util-get-random-bytes.c
util-make-failure-token.c util-xbzero.c util-xstrcpy.c
crypt-des-obsolete.c""".split()

ALL_HASHES = ("bcrypt,bcrypt_a,bcrypt_x,bcrypt_y,bigcrypt,bsdicrypt,descrypt,"
              "gost_yescrypt,md5crypt,nt,scrypt,sha1crypt,sha256crypt,"
              "sha512crypt,sunmd5,yescrypt").split(",")

WRAPS = ("malloc,calloc,posix_memalign,aligned_alloc,realloc,free,mmap,munmap,arc4random_buf,explicit_bzero,"
         "setlocale,strtok,l64a,localeconv,rand").split(",")

FLAVOURS = {
    # name: (cc, cflags, ldflags)
    "asan": ("gcc", "-O1 -g -fno-omit-frame-pointer -fsanitize=address,undefined "
             "-fno-sanitize-recover=all", "-fsanitize=address,undefined"),
    "msan": ("clang-14", "-O1 -g -fno-omit-frame-pointer -fsanitize=memory "
             "-fsanitize-memory-track-origins", "-fsanitize=memory"),
    "tsan": ("gcc", "-O1 -g -fsanitize=thread", "-fsanitize=thread"),
    "o0": ("gcc", "-O0 -g", "-Wl,-z,now"),
    "opt": ("gcc", "-O2 -g", ""),
    "fuzz": ("clang-14", "-O1 -g -fno-omit-frame-pointer -fsanitize=fuzzer-no-link,address,undefined "
             "-fno-sanitize-recover=all", "-fsanitize=fuzzer,address,undefined"),
    "so": ("gcc", "-O2 -g -fPIC -DPIC", ""),
    # a distribution building with CPPFLAGS=-DNDEBUG: an assert() whose argument has a side effect disappears
    "ndebug": ("gcc", "-O2 -g -DNDEBUG", ""),
    # other optimisation / target choices a packager may make: they select other code in the hash cores
    # (__OPTIMIZE_SIZE__ paths; alignment assumptions that only bite with SSSE3-era aligned loads)
    "os": ("gcc", "-Os -g", ""),
    "v2": ("gcc", "-O2 -g -march=x86-64-v2", ""),
    # what distributions moving to x86-64-v3 ship (AVX2, BMI1/2: __BMI__, __AVX2__ select other code)
    "v3": ("gcc", "-O2 -g -march=x86-64-v3", ""),
    "v4": ("gcc", "-O2 -g -march=x86-64-v4", ""),
    # how distributions build: the *_chk variants of the string functions abort when the stated bound exceeds the
    # real size of the destination
    "fortify": ("gcc", "-O2 -g -D_FORTIFY_SOURCE=2", ""),      # AVX-512 (F, BW, CD, DQ, VL)
    "so-ndebug": ("gcc", "-O2 -g -fPIC -DPIC -DNDEBUG", ""),
    "so-uchar": ("gcc", "-O2 -g -fPIC -DPIC -funsigned-char", ""),
    "so-asan": ("gcc", "-O1 -g -fno-omit-frame-pointer -fPIC -DPIC "
                "-fsanitize=address,undefined -fno-sanitize-recover=all",
                "-fsanitize=address,undefined"),
}


class BuildError(Exception):
    pass


def _run(cmd, **kw):
    p = subprocess.run(cmd, stdout=subprocess.PIPE, stderr=subprocess.STDOUT,
                       text=True, **kw)
    if p.returncode != 0:
        raise BuildError("command failed (%d): %s\n%s" % (
            p.returncode, cmd if isinstance(cmd, str) else " ".join(cmd),
            p.stdout[-4000:]))
    return p.stdout


def _tree_files():
    out = []
    lib = os.path.join(REPO, "lib")
    for n in sorted(os.listdir(lib)):
        if re.search(r"\.(c|h|in|conf|minver)$", n):
            out.append(os.path.join(lib, n))
    scr = os.path.join(REPO, "build-aux", "scripts")
    for n in sorted(os.listdir(scr)):
        p = os.path.join(scr, n)
        if os.path.isfile(p):
            out.append(p)
    for n in ("config.h", "configure.ac"):
        p = os.path.join(REPO, n)
        if os.path.exists(p):
            out.append(p)
    return out


def tree_hash(extra=()):
    h = hashlib.sha256()
    for p in _tree_files():
        h.update(p.encode() + b"\0")
        with open(p, "rb") as f:
            h.update(hashlib.sha256(f.read()).digest())
    for n in sorted(os.listdir(HARNESS)):
        p = os.path.join(HARNESS, n)
        if os.path.isfile(p):
            h.update(n.encode() + b"\0")
            with open(p, "rb") as f:
                h.update(hashlib.sha256(f.read()).digest())
    with open(os.path.abspath(__file__), "rb") as f:
        h.update(hashlib.sha256(f.read()).digest())
    for e in extra:
        h.update(str(e).encode())
    return h.hexdigest()[:20]


def _makefile_vars():
    v = {"SYMVER_MIN": "GLIBC_2.0", "SYMVER_FLOOR": "GLIBC_2.2.5",
         "COMPAT_ABI": "yes"}
    mk = os.path.join(REPO, "Makefile")
    if os.path.exists(mk):
        with open(mk, errors="replace") as f:
            for line in f:
                m = re.match(r"^(SYMVER_MIN|SYMVER_FLOOR|COMPAT_ABI) = (\S+)", line)
                if m:
                    v[m.group(1)] = m.group(2)
    return v


def _config_h(dest):
    """Place a config.h in dest.  /repo/config.h when present; otherwise run
    the repository's configure out of tree; last resort the committed copy."""
    src = os.path.join(REPO, "config.h")
    if os.path.exists(src):
        shutil.copy(src, os.path.join(dest, "config.h"))
        return "repo"
    conf = os.path.join(REPO, "configure")
    if os.path.exists(conf):
        d = os.path.join(dest, "_configure")
        os.makedirs(d, exist_ok=True)
        try:
            _run([conf, "--quiet"], cwd=d, timeout=600)
            shutil.copy(os.path.join(d, "config.h"), os.path.join(dest, "config.h"))
            return "configure"
        except Exception:
            pass
        finally:
            shutil.rmtree(d, ignore_errors=True)
    shutil.copy(os.path.join(HARNESS, "config.h.fallback"),
                os.path.join(dest, "config.h"))
    return "fallback"


def apply_config_overrides(cfg, overrides):
    """Rewrite '#define K ...' lines of a config.h; a value of None undefines K."""
    with open(cfg) as f:
        t = f.read()
    for k, v in overrides.items():
        if v is None:
            t = re.sub(r"(?m)^#define %s\b.*$" % re.escape(k), "/* #undef %s */" % k, t)
            continue
        t, n = re.subn(r"#define %s \S+" % re.escape(k), "#define %s %s" % (k, v), t)
        if not n:
            t += "\n#define %s %s\n" % (k, v)
    with open(cfg, "w") as f:
        f.write(t)


def gen_headers(dest, hashes=None, obsolete_api=None, config_overrides=None, compat_abi=None):
    """Generate crypt.h, crypt-hashes.h, crypt-symbol-vers.h, libcrypt.map in
    dest with the repository's own scripts.  hashes: list of enabled method
    names (default: all)."""
    os.makedirs(dest, exist_ok=True)
    _config_h(dest)
    cfg = os.path.join(dest, "config.h")
    if obsolete_api is not None:
        with open(cfg) as f:
            t = f.read()
        val = "1" if obsolete_api else "0"
        t = re.sub(r"#define ENABLE_OBSOLETE_API \d+",
                   "#define ENABLE_OBSOLETE_API " + val, t)
        t = re.sub(r"#define ENABLE_OBSOLETE_API_ENOSYS \d+",
                   "#define ENABLE_OBSOLETE_API_ENOSYS 0", t)
        with open(cfg, "w") as f:
            f.write(t)
    if config_overrides:
        apply_config_overrides(cfg, config_overrides)
    hs = sorted(hashes) if hashes is not None else ALL_HASHES
    enabled = "," + ",".join(hs) + ","
    scr = os.path.join(REPO, "build-aux", "scripts")
    mv = _makefile_vars()
    if obsolete_api is False:
        mv["COMPAT_ABI"] = "no"
    if compat_abi:
        mv["COMPAT_ABI"] = compat_abi       # --enable-obsolete-api=glibc|alt|owl|suse
    env = dict(os.environ, LC_ALL="C")
    sv = ["SYMVER_MIN=" + mv["SYMVER_MIN"], "SYMVER_FLOOR=" + mv["SYMVER_FLOOR"],
          "COMPAT_ABI=" + mv["COMPAT_ABI"]]
    lib = os.path.join(REPO, "lib")

    def gen(out, args):
        p = subprocess.run(["perl", "-I", scr] + args, stdout=subprocess.PIPE,
                           stderr=subprocess.PIPE, env=env, text=True)
        if p.returncode != 0:
            raise BuildError("header generation failed: %s\n%s" % (args, p.stderr))
        with open(os.path.join(dest, out), "w") as f:
            f.write(p.stdout)

    gen("crypt-hashes.h", [os.path.join(scr, "gen-crypt-hashes-h"),
                           os.path.join(lib, "hashes.conf"), enabled])
    gen("crypt.h", [os.path.join(scr, "gen-crypt-h"),
                    os.path.join(lib, "crypt.h.in"), cfg,
                    os.path.join(lib, "hashes.conf"), enabled])
    gen("crypt-symbol-vers.h", [os.path.join(scr, "gen-crypt-symbol-vers-h"),
                                "yes"] + sv + [os.path.join(lib, "libcrypt.map.in")])
    gen("libcrypt.map", [os.path.join(scr, "gen-libcrypt-map")] + sv +
        [os.path.join(lib, "libcrypt.map.in")])
    return dest


def compile_objects(objdir, gendir, cc, cflags, sources=None, extra_defs="", plain_prefix=None):
    """plain_prefix: sources whose name starts with it are compiled at -O2
    without instrumentation (the fuzz flavour keeps the hash cores fast and
    instruments the parsers and the API layer only)."""
    os.makedirs(objdir, exist_ok=True)
    sources = sources or LIB_SOURCES
    lib = os.path.join(REPO, "lib")
    jobs = []
    for s in sources:
        o = os.path.join(objdir, s[:-2] + ".o")
        fl = "-O2 -g" if plain_prefix and s.startswith(plain_prefix) else cflags
        jobs.append("%s -std=gnu11 -w -DHAVE_CONFIG_H -DIN_LIBCRYPT -D%s %s %s -I%s -I%s "
                    "-c %s -o %s" % (cc, GUARD, extra_defs, fl, gendir, lib,
                                     os.path.join(lib, s), o))
    script = "\n".join(jobs)
    p = subprocess.run(["xargs", "-P", str(NPROC), "-d", "\n", "-n", "1",
                        "sh", "-c", 'eval "$0"'],
                       input=script, text=True, stdout=subprocess.PIPE,
                       stderr=subprocess.STDOUT)
    if p.returncode != 0:
        raise BuildError("compile failed (%s %s):\n%s" % (cc, cflags, p.stdout[-6000:]))
    return [os.path.join(objdir, s[:-2] + ".o") for s in sources]


class Tree:
    """A cache directory for one state of the working tree."""

    def __init__(self):
        os.makedirs(CACHE_ROOT, exist_ok=True)
        self.hash = tree_hash()
        self.dir = os.path.join(CACHE_ROOT, self.hash)
        os.makedirs(self.dir, exist_ok=True)
        os.utime(self.dir, None)
        self._prune()

    def _lock(self, name):
        f = open(os.path.join(self.dir, ".lock-" + name), "w")
        fcntl.flock(f, fcntl.LOCK_EX)
        return f

    def _prune(self):
        try:
            ents = []
            for n in os.listdir(CACHE_ROOT):
                p = os.path.join(CACHE_ROOT, n)
                if os.path.isdir(p) and p != self.dir:
                    ents.append((os.stat(p).st_mtime, p))
            ents.sort(reverse=True)
            now = time.time()
            for i, (mt, p) in enumerate(ents):
                if i >= 2 and now - mt > 3 * 3600 or now - mt > 24 * 3600:
                    shutil.rmtree(p, ignore_errors=True)
        except OSError:
            pass

    def gendir(self):
        d = os.path.join(self.dir, "gen")
        with self._lock("gen"):
            if not os.path.exists(os.path.join(d, ".done")):
                gen_headers(d)
                open(os.path.join(d, ".done"), "w").close()
        return d

    def objects(self, flavour):
        """Compile library objects for a flavour; return list of .o paths."""
        cc, cflags, _ = FLAVOURS[flavour]
        gd = self.gendir()
        od = os.path.join(self.dir, flavour, "obj")
        with self._lock(flavour):
            if not os.path.exists(os.path.join(od, ".done")):
                compile_objects(od, gd, cc, cflags, plain_prefix="alg-" if flavour == "fuzz" else None)
                open(os.path.join(od, ".done"), "w").close()
        return [os.path.join(od, s[:-2] + ".o") for s in LIB_SOURCES]

    def variant_object(self, flavour, source, tag, config_overrides, extra_cflags="", hashes=None):
        """One library source compiled for `flavour` against a copy of the
        generated headers whose config.h has `config_overrides` applied
        (and/or with extra compiler flags, e.g. another instruction set)."""
        cc, cflags, _ = FLAVOURS[flavour]
        cflags = cflags + " " + extra_cflags
        gd = self.gendir()
        vd = os.path.join(self.dir, "gen-" + tag)
        od = os.path.join(self.dir, flavour, "obj-" + tag)
        out = os.path.join(od, source[:-2] + ".o")
        with self._lock(flavour + "-variant-" + tag):
            if not os.path.exists(out):
                if not os.path.exists(os.path.join(vd, ".done")):
                    shutil.rmtree(vd, ignore_errors=True)
                    if hashes is not None:
                        gen_headers(vd, hashes=hashes, config_overrides=config_overrides or None)
                    else:
                        shutil.copytree(gd, vd)
                        apply_config_overrides(os.path.join(vd, "config.h"), config_overrides or {})
                    open(os.path.join(vd, ".done"), "w").close()
                compile_objects(od, vd, cc, cflags, sources=[source])
        return out

    def program(self, flavour, src, name=None, wrap=True, libs="", extra_cflags="",
                with_objects=True, replace=None, consumer=False):
        """Compile harness/<src> and link it with the library OBJECTS of
        flavour (never an archive: sanitizer runtimes intercept crypt/crypt_r)."""
        cc, cflags, ldflags = FLAVOURS[flavour]
        name = name or (os.path.splitext(src)[0] + "-" + flavour)
        out = os.path.join(self.dir, flavour, name)
        objs = self.objects(flavour) if with_objects else []
        if replace:
            objs = [replace.get(os.path.basename(o), o) for o in objs]
        with self._lock(flavour + "-" + name):
            if os.path.exists(out):
                return out
            gd = self.gendir()
            w = ""
            if wrap:
                w = " ".join("-Wl,--wrap=" + x for x in WRAPS)
            # consumer: an application - it sees the generated <crypt.h> only, with none of the library's own macros
            defs = "-D_GNU_SOURCE" if consumer else "-D_GNU_SOURCE -DHAVE_CONFIG_H -DIN_LIBCRYPT -D" + GUARD
            cmd = ("%s -std=gnu11 %s %s %s -I%s -I%s -I%s "
                   "%s %s -o %s.tmp %s %s %s -lpthread -ldl" % (
                       cc, defs, cflags, extra_cflags, gd,
                       os.path.join(REPO, "lib"), HARNESS,
                       os.path.join(HARNESS, src), " ".join(objs), out,
                       ldflags, w, libs))
            _run(cmd, shell=True)
            os.rename(out + ".tmp", out)
        return out

    def shared(self, flavour="so"):
        """Link libcrypt.so.1 from -fPIC objects with the generated version
        script.  Returns the directory holding libcrypt.so.1."""
        cc, cflags, ldflags = FLAVOURS[flavour]
        objs = self.objects(flavour)
        d = os.path.join(self.dir, flavour, "lib")
        with self._lock(flavour + "-shared"):
            if not os.path.exists(os.path.join(d, "libcrypt.so.1")):
                os.makedirs(d, exist_ok=True)
                gd = self.gendir()
                cmd = ("%s -shared %s %s -Wl,--version-script=%s -Wl,-soname,libcrypt.so.1 "
                       "-Wl,-z,defs -Wl,-z,text -o %s/libcrypt.so.1.tmp %s" % (
                           cc, cflags, " ".join(objs), os.path.join(gd, "libcrypt.map"),
                           d, ldflags))
                _run(cmd, shell=True)
                os.rename(os.path.join(d, "libcrypt.so.1.tmp"),
                          os.path.join(d, "libcrypt.so.1"))
        return d

    def so_program(self, flavour, src, name, defs="-DVW_SO", libs=""):
        """Link harness/<src> (-DVW_SO, no wrappers) against the freshly built
        libcrypt.so.1 of `flavour` (so / so-asan)."""
        cc, cflags, ldflags = FLAVOURS[flavour]
        d = self.shared(flavour)
        out = os.path.join(self.dir, flavour, name)
        with self._lock(flavour + "-" + name):
            if os.path.exists(out):
                return out
            gd = self.gendir()
            cmd = ("%s -std=gnu11 -D_GNU_SOURCE %s %s -I%s -I%s %s -o %s.tmp %s -L%s -l:libcrypt.so.1 "
                   "-Wl,-rpath,%s -lpthread -ldl %s" % (
                       cc, defs, cflags.replace("-fPIC -DPIC", ""), gd, HARNESS,
                       os.path.join(HARNESS, src), out, ldflags, d, d, libs))
            _run(cmd, shell=True)
            os.rename(out + ".tmp", out)
        return out

    def scratch(self, name):
        d = os.path.join(self.dir, "scratch-%s-%d" % (name, os.getpid()))
        shutil.rmtree(d, ignore_errors=True)
        os.makedirs(d)
        return d


def sys_program(src, name, libs="-lcrypt", extra_cflags=""):
    """Compile a harness source against the *released* header and library
    (the `sys` oracle).  Independent of /repo; cached by harness hash."""
    h = hashlib.sha256()
    with open(os.path.join(HARNESS, src), "rb") as f:
        h.update(f.read())
    for n in ("vcommon.h",):
        p = os.path.join(HARNESS, n)
        if os.path.exists(p):
            with open(p, "rb") as f:
                h.update(f.read())
    h.update((libs + extra_cflags).encode())
    d = os.path.join(CACHE_ROOT, "sys-" + h.hexdigest()[:16])
    os.makedirs(d, exist_ok=True)
    os.utime(d, None)
    out = os.path.join(d, name)
    lock = open(os.path.join(d, ".lock"), "w")
    fcntl.flock(lock, fcntl.LOCK_EX)
    try:
        if not os.path.exists(out):
            cmd = ("gcc -std=gnu11 -D_GNU_SOURCE -DVW_SYS -O1 -g %s -I%s %s -o %s.tmp %s -lpthread -ldl"
                   % (extra_cflags, HARNESS, os.path.join(HARNESS, src), out, libs))
            _run(cmd, shell=True)
            os.rename(out + ".tmp", out)
    finally:
        lock.close()
    return out


if __name__ == "__main__":
    t = Tree()
    print(t.hash, t.dir)
    for fl in sys.argv[1:]:
        t0 = time.time()
        t.objects(fl)
        print(fl, "%.1fs" % (time.time() - t0))
