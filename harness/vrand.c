/* vrand - monitor for the OS entropy source chain of get_random_bytes
   (DESIGN C12, lib/util-get-random-bytes.c) in the configuration WITHOUT
   arc4random_buf, where getentropy, getrandom, the raw system calls and
   /dev/urandom are tried in turn.

   Linked with the library objects, util-get-random-bytes.o rebuilt against a
   config.h without HAVE_ARC4RANDOM_BUF, and -Wl,--wrap= for getentropy,
   getrandom, syscall, open, read, close.  Every mock source delivers bytes of
   one global, never-zero, position-identifying stream and logs (destination,
   length, stream offset).  One child process per schedule (the chain keeps
   sticky "does not work" flags).

   Oracle, per call:
     success  => every byte of the caller's buffer was written by a mock
                 delivery of this call and holds the value of the latest
                 delivery covering it (no byte left from the pre-clear, none
                 invented);
     a source that works fully while all earlier ones report ENOSYS must be
     reached (success);
   and through the API: crypt_gensalt_rn (prefix, 0, NULL, 0) fails with errno
   set when no source works, and otherwise returns exactly the setting that the
   delivered bytes give when passed explicitly.

   usage: vrand <seed> <prefix-hex|-> ...      output: VIOL/STAT lines  */

#include <crypt.h>
#include <errno.h>
#include <fcntl.h>
#include <stdarg.h>
#include <stdint.h>
#include <stdio.h>
#include <stdlib.h>
#include <string.h>
#include <sys/random.h>
#include <sys/syscall.h>
#include <sys/types.h>
#include <sys/wait.h>
#include <unistd.h>

extern _Bool _crypt_get_random_bytes (void *, size_t);

enum { S_GETENTROPY, S_GETRANDOM, S_SYS_GETRANDOM, S_OPEN, S_READ, NSRC };
enum { M_OK, M_FAIL, M_SHORT, M_EINTR, M_ZERO };
static const char *const srcname[NSRC] = { "getentropy", "getrandom", "syscall-getrandom", "open", "read" };
static const char *const modename[] = { "ok", "fail", "short", "eintr-once", "eof" };

static int g_mode[2][NSRC];        /* [call index > 0][source] */
static int g_short = 5;            /* bytes per short delivery */
static int g_call;                 /* 0 or 1: which schedule row applies */
static int g_active;               /* inside the library call */
static int g_fd = -1;              /* our fake /dev/urandom descriptor */
static int g_eintr_left;

struct deliv { unsigned char *dst; size_t len; size_t off; };
static struct deliv g_d[256];
static int g_nd;
static size_t g_stream;
static long g_reached[NSRC];
static long g_proc_calls;          /* library calls made by this process so far */

static unsigned char
stream_byte (size_t k)
{
  return (unsigned char) ((k * 167u + 13u) % 255u + 1u);
}

static size_t
deliver (void *dst, size_t n)
{
  unsigned char *p = dst;
  for (size_t i = 0; i < n; i++)
    p[i] = stream_byte (g_stream + i);
  if (g_nd < 256)
    g_d[g_nd++] = (struct deliv) { p, n, g_stream };
  g_stream += n + 3;
  return n;
}

int __real_getentropy (void *, size_t);
ssize_t __real_getrandom (void *, size_t, unsigned);
int __real_open (const char *, int, ...);
ssize_t __real_read (int, void *, size_t);
int __real_close (int);

int
__wrap_getentropy (void *buf, size_t n)
{
  if (!g_active) return __real_getentropy (buf, n);
  g_reached[S_GETENTROPY]++;
  if (g_mode[g_call][S_GETENTROPY] == M_OK) { deliver (buf, n); return 0; }
  errno = ENOSYS;
  return -1;
}

static ssize_t
mock_getrandom (int src, void *buf, size_t n)
{
  g_reached[src]++;
  switch (g_mode[g_call][src])
    {
    case M_OK: return (ssize_t) deliver (buf, n);
    case M_SHORT: return (ssize_t) deliver (buf, n < (size_t) g_short ? n : (size_t) g_short);
    default: errno = ENOSYS; return -1;
    }
}

ssize_t
__wrap_getrandom (void *buf, size_t n, unsigned fl)
{
  if (!g_active) return __real_getrandom (buf, n, fl);
  return mock_getrandom (S_GETRANDOM, buf, n);
}

long
__wrap_syscall (long nr, ...)
{
  va_list ap;
  va_start (ap, nr);
  long a = va_arg (ap, long), b = va_arg (ap, long), c = va_arg (ap, long);
  long d = va_arg (ap, long), e = va_arg (ap, long), f = va_arg (ap, long);
  va_end (ap);
  if (g_active && nr == SYS_getrandom)
    return mock_getrandom (S_SYS_GETRANDOM, (void *) a, (size_t) b);
  if (g_active) { errno = ENOSYS; return -1; }
  extern long __real_syscall (long, ...);
  return __real_syscall (nr, a, b, c, d, e, f);
}

int
__wrap_open (const char *path, int flags, ...)
{
  va_list ap;
  va_start (ap, flags);
  int mode = va_arg (ap, int);
  va_end (ap);
  if (!g_active || strcmp (path, "/dev/urandom"))
    return __real_open (path, flags, mode);
  g_reached[S_OPEN]++;
  if (g_mode[g_call][S_OPEN] != M_OK) { errno = ENOENT; return -1; }
  g_fd = __real_open ("/dev/null", O_RDONLY);
  g_eintr_left = g_mode[g_call][S_READ] == M_EINTR ? 1 : 0;
  return g_fd;
}

ssize_t
__wrap_read (int fd, void *buf, size_t n)
{
  if (!g_active || fd != g_fd || fd < 0)
    return __real_read (fd, buf, n);
  g_reached[S_READ]++;
  switch (g_mode[g_call][S_READ])
    {
    case M_OK: return (ssize_t) deliver (buf, n);
    case M_SHORT: return (ssize_t) deliver (buf, n < (size_t) g_short ? n : (size_t) g_short);
    case M_EINTR:
      if (g_eintr_left) { g_eintr_left--; errno = EINTR; return -1; }
      return (ssize_t) deliver (buf, n);
    case M_ZERO: return 0;
    default: errno = EIO; return -1;
    }
}

int
__wrap_close (int fd)
{
  if (fd == g_fd) g_fd = -1;
  return __real_close (fd);
}

/* --- oracle --------------------------------------------------------- */

static long n_viol, n_eval, n_succ, n_fail, n_noerrno;

static void
sched_str (char *o, size_t cap)
{
  size_t k = 0;
  for (int c = 0; c < 2; c++)
    for (int s = 0; s < NSRC; s++)
      k += (size_t) snprintf (o + k, cap - k, "%s%s=%s", k ? "," : "", c ? "2:" : "1:", modename[g_mode[c][s]]),
      k += (size_t) snprintf (o + k, cap - k, "(%s)", srcname[s]);
}

static void
viol (const char *key, const char *detail)
{
  char s[700];
  sched_str (s, sizeof s);
  printf ("VIOL %s %s short=%d schedule=%s\n", key, detail, g_short, s);
  n_viol++;
}

/* Would a chain that tries every source in order succeed under row c?  */
static int
some_source_works (int c, size_t n)
{
  if (g_mode[c][S_GETENTROPY] == M_OK) return 1;
  if (g_mode[c][S_GETRANDOM] == M_OK || (g_mode[c][S_GETRANDOM] == M_SHORT && n <= (size_t) g_short)) return 1;
  if (g_mode[c][S_SYS_GETRANDOM] == M_OK || (g_mode[c][S_SYS_GETRANDOM] == M_SHORT && n <= (size_t) g_short)) return 1;
  if (g_mode[c][S_OPEN] == M_OK
      && (g_mode[c][S_READ] == M_OK || (g_mode[c][S_READ] == M_SHORT && n <= (size_t) g_short)))
    return 1;
  return 0;
}

/* check buf[0..n) against the deliveries logged since d0 */
static int
covered (const unsigned char *buf, size_t n, int d0, char *why, size_t cap)
{
  for (size_t i = 0; i < n; i++)
    {
      int hit = -1;
      for (int k = g_nd - 1; k >= d0; k--)
        if (buf + i >= g_d[k].dst && buf + i < g_d[k].dst + g_d[k].len) { hit = k; break; }
      if (hit < 0)
        {
          snprintf (why, cap, "byte %zu of %zu (value 0x%02x) was written by no OS source", i, n, buf[i]);
          return 0;
        }
      unsigned char want = stream_byte (g_d[hit].off + (size_t) (buf + i - g_d[hit].dst));
      if (buf[i] != want)
        {
          snprintf (why, cap, "byte %zu of %zu is 0x%02x, the OS delivered 0x%02x there", i, n, buf[i], want);
          return 0;
        }
    }
  return 1;
}

static void
direct_case (size_t n)
{
  unsigned char raw[300 + 32];
  for (g_call = 0; g_call < 2; g_call++)
    {
      unsigned char *buf = raw + 16;
      memset (raw, 0xA5, sizeof raw);
      int d0 = g_nd;
      errno = 0;
      g_active = 1;
      long nth = g_proc_calls++;
      int ok = _crypt_get_random_bytes (buf, n);
      int e = errno;
      g_active = 0;
      n_eval++;
      char why[200];
      if (ok)
        {
          n_succ++;
          if (!covered (buf, n, d0, why, sizeof why))
            viol ("not-from-os/direct", why);
        }
      else
        {
          n_fail++;
          if (e == 0)
            n_noerrno++;          /* informational: no listed property covers errno of an OS-source failure */
          /* first call of the process only: later ones may legitimately skip sources marked broken */
          if (nth == 0 && some_source_works (0, n))
            {
              snprintf (why, sizeof why, "n=%zu: a later source works but the call failed with errno %d", n, e);
              viol ("working-source-not-reached/direct", why);
            }
        }
      for (int i = 0; i < 16; i++)
        if (raw[i] != 0xA5 || raw[16 + n + (size_t) i] != 0xA5)
          { viol ("wrote-outside-buffer/direct", "guard bytes around the buffer changed"); break; }
    }
}

static void
api_case (const char *prefix)
{
  char out[CRYPT_GENSALT_OUTPUT_SIZE], out2[CRYPT_GENSALT_OUTPUT_SIZE];
  for (g_call = 0; g_call < 2; g_call++)
    {
      int d0 = g_nd;
      errno = 0;
      g_active = 1;
      char *r = crypt_gensalt_rn (prefix, 0, 0, 0, out, sizeof out);
      int e = errno;
      g_active = 0;
      n_eval++;
      char why[400];
      if (!r)
        {
          n_fail++;
          if (e == 0)
            n_noerrno++;
          continue;
        }
      n_succ++;
      if (g_nd == d0)
        {
          snprintf (why, sizeof why, "%s: returned %s although no OS source delivered anything", prefix ? prefix : "NULL", r);
          viol ("salt-without-os-bytes/api", why);
          continue;
        }
      /* the request: lowest destination and the length the first source was asked for */
      unsigned char *base = g_d[d0].dst;
      size_t want = 0;
      for (int k = d0; k < g_nd; k++)
        {
          if (g_d[k].dst < base) base = g_d[k].dst;
        }
      for (int k = d0; k < g_nd; k++)
        if ((size_t) (g_d[k].dst + g_d[k].len - base) > want) want = (size_t) (g_d[k].dst + g_d[k].len - base);
      if (want > 256) want = 256;
      /* the library has erased its copy by now: rebuild the delivered buffer from the log */
      unsigned char rb[256];
      int holes = 0;
      for (size_t i = 0; i < want; i++)
        {
          int hit = -1;
          for (int k = g_nd - 1; k >= d0; k--)
            if (base + i >= g_d[k].dst && base + i < g_d[k].dst + g_d[k].len) { hit = k; break; }
          if (hit < 0) { rb[i] = 0; holes++; }
          else rb[i] = stream_byte (g_d[hit].off + (size_t) (base + i - g_d[hit].dst));
        }
      if (holes)
        {
          snprintf (why, sizeof why, "%s: %d of %zu requested bytes never delivered yet the call returned %s",
                    prefix ? prefix : "NULL", holes, want, r);
          viol ("not-from-os/api", why);
          continue;
        }
      errno = 0;
      char *r2 = crypt_gensalt_rn (prefix, 0, (const char *) rb, (int) want, out2, sizeof out2);
      if (!r2 || strcmp (r, r2))
        {
          snprintf (why, sizeof why, "%s: via the OS %s, with the %zu delivered bytes passed explicitly %s",
                    prefix ? prefix : "NULL", r, want, r2 ? r2 : "(null)");
          viol ("os-bytes-not-used/api", why);
        }
    }
}

static int
run_child (void (*fn) (void *), void *arg)
{
  fflush (stdout);
  int pfd[2];
  if (pipe (pfd)) return -1;
  pid_t p = fork ();
  if (p < 0) return -1;
  if (p == 0)
    {
      close (pfd[0]);
      n_viol = n_eval = n_succ = n_fail = n_noerrno = 0;
      memset (g_reached, 0, sizeof g_reached);
      fn (arg);
      fflush (stdout);
      long v[5 + NSRC] = { n_viol, n_eval, n_succ, n_fail, n_noerrno };
      for (int i = 0; i < NSRC; i++) v[5 + i] = g_reached[i];
      if (write (pfd[1], v, sizeof v) != (ssize_t) sizeof v) _exit (3);
      _exit (0);
    }
  close (pfd[1]);
  long v[5 + NSRC] = { 0 };
  ssize_t got = __real_read (pfd[0], v, sizeof v);
  close (pfd[0]);
  int st = 0;
  waitpid (p, &st, 0);
  if (got != (ssize_t) sizeof v || !WIFEXITED (st) || WEXITSTATUS (st))
    {
      char s[700];
      sched_str (s, sizeof s);
      printf ("VIOL crash child died (status 0x%x) short=%d schedule=%s\n", st, g_short, s);
      n_viol++;
      return -1;
    }
  n_viol += v[0]; n_eval += v[1]; n_succ += v[2]; n_fail += v[3]; n_noerrno += v[4];
  for (int i = 0; i < NSRC; i++) g_reached[i] += v[5 + i];
  return 0;
}

static const size_t LENS[] = { 1, 2, 3, 5, 6, 8, 16, 17, 32, 64, 255, 256 };
static void direct_all (void *a) { (void) a; for (size_t i = 0; i < sizeof LENS / sizeof LENS[0]; i++) direct_case (LENS[i]); }
static void direct_one (void *a) { direct_case (*(size_t *) a); }
static char **g_prefixes; static int g_nprefixes;
static void api_all (void *a) { (void) a; for (int i = 0; i < g_nprefixes; i++) api_case (g_prefixes[i]); }
static void api_one (void *a) { api_case (*(char **) a); }

int
main (int argc, char **argv)
{
  if (argc < 2) return 2;
  setvbuf (stdout, 0, _IOLBF, 0);
  unsigned seed = (unsigned) strtoul (argv[1], 0, 0);
  static char *pre[64];
  for (int i = 2; i < argc && g_nprefixes < 64; i++)
    {
      if (!strcmp (argv[i], "-")) { pre[g_nprefixes++] = 0; continue; }
      size_t L = strlen (argv[i]) / 2;
      char *s = calloc (L + 1, 1);
      for (size_t k = 0; k < L; k++) { unsigned v; sscanf (argv[i] + 2 * k, "%2x", &v); s[k] = (char) v; }
      pre[g_nprefixes++] = s;
    }
  g_prefixes = pre;
  long schedules = 0;
  static const int m_ge[] = { M_OK, M_FAIL }, m_gr[] = { M_OK, M_FAIL, M_SHORT };
  static const int m_op[] = { M_OK, M_FAIL }, m_rd[] = { M_OK, M_FAIL, M_SHORT, M_EINTR, M_ZERO };
  static const int shorts[] = { 1, 5, 16, 255 };
  /* first-call rows: the full product; second-call row: all broken, all fine, or the same again */
  for (int a = 0; a < 2; a++) for (int b = 0; b < 3; b++) for (int c = 0; c < 3; c++)
    for (int d = 0; d < 2; d++) for (int e = 0; e < 5; e++)
      {
        if (d == 1 && e > 0) continue;          /* open fails: read mode irrelevant */
        for (int second = 0; second < 3; second++)
          {
            g_mode[0][S_GETENTROPY] = m_ge[a]; g_mode[0][S_GETRANDOM] = m_gr[b];
            g_mode[0][S_SYS_GETRANDOM] = m_gr[c]; g_mode[0][S_OPEN] = m_op[d]; g_mode[0][S_READ] = m_rd[e];
            for (int s = 0; s < NSRC; s++)
              g_mode[1][s] = second == 0 ? M_FAIL : second == 1 ? M_OK : g_mode[0][s];
            int uses_short = m_gr[b] == M_SHORT || m_gr[c] == M_SHORT || m_rd[e] == M_SHORT;
            for (int si = 0; si < (uses_short ? 4 : 1); si++)
              {
                g_short = shorts[(si + (int) seed) % 4];
                schedules++;
                /* all lengths in one process, and (sticky flags) each length as the first call of a process */
                run_child (direct_all, 0);
                if (second == 2 && si == 0)
                  for (size_t i = 0; i < sizeof LENS / sizeof LENS[0]; i++)
                    { size_t n = LENS[(i + seed) % (sizeof LENS / sizeof LENS[0])]; run_child (direct_one, &n); }
                if (g_nprefixes && second != 1)
                  {
                    run_child (api_all, 0);
                    if (si == 0 && second == 2)
                      for (int i = 0; i < g_nprefixes; i++) run_child (api_one, &pre[i]);
                  }
              }
          }
      }
  printf ("STAT {\"evaluations\": %ld, \"schedules\": %ld, \"succeeded\": %ld, \"failed\": %ld, \"failed_with_errno_0\": %ld", n_eval, schedules, n_succ, n_fail, n_noerrno);
  for (int i = 0; i < NSRC; i++) printf (", \"reached_%s\": %ld", srcname[i], g_reached[i]);
  printf ("}\n");
  return n_viol ? 1 : 0;
}
