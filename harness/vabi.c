/* vabi - an "old client" (DESIGN C20): built against the RELEASED <crypt.h>
   and linked against the RELEASED libcrypt.so.1, binding the compat-only
   symbol versions the way binaries built against glibc's libcrypt or
   libxcrypt 3.x/4.x did.  It is then run unchanged against the freshly built
   library (LD_LIBRARY_PATH) and the two transcripts are compared.

   stdin: lines "c <phrase-hex> <setting-hex>" | "g <prefix-hex|-> <count> <rbytes-hex>" |
          "d <key-hex8> <block-hex8>" | "h <key-hex8> <block-hex8> <phrase-hex> <setting-hex>";
          "-" = NULL, "." = empty.  */
#include <crypt.h>
#include <errno.h>
#include <stdint.h>
#include <stdio.h>
#include <stdlib.h>
#include <string.h>
#include <sys/wait.h>
#include <unistd.h>

/* the glibc-era struct crypt_data was 131232 bytes; such callers hand that
   much memory to crypt_r */
#define GLIBC_CRYPT_DATA_SIZE 131232

extern char *old_crypt (const char *, const char *);
extern char *old_crypt_r (const char *, const char *, void *);
extern char *old_fcrypt (const char *, const char *);
extern void old_setkey (const char *);
extern void old_encrypt (char *, int);
extern void old_setkey_r (const char *, void *);
extern void old_encrypt_r (char *, int, void *);
extern char *old_xcrypt (const char *, const char *);
extern char *old_xcrypt_r (const char *, const char *, void *);
extern char *old_xcrypt_gensalt (const char *, unsigned long, const char *, int);
extern char *old_xcrypt_gensalt_r (const char *, unsigned long, const char *, int, char *, int);
extern char *old_crypt_gensalt_r (const char *, unsigned long, const char *, int, char *, int);
__asm__ (".symver old_crypt,crypt@GLIBC_2.2.5");
__asm__ (".symver old_crypt_r,crypt_r@GLIBC_2.2.5");
__asm__ (".symver old_fcrypt,fcrypt@GLIBC_2.2.5");
__asm__ (".symver old_setkey,setkey@GLIBC_2.2.5");
__asm__ (".symver old_encrypt,encrypt@GLIBC_2.2.5");
__asm__ (".symver old_setkey_r,setkey_r@GLIBC_2.2.5");
__asm__ (".symver old_encrypt_r,encrypt_r@GLIBC_2.2.5");
__asm__ (".symver old_xcrypt,xcrypt@XCRYPT_2.0");
__asm__ (".symver old_xcrypt_r,xcrypt_r@XCRYPT_2.0");
__asm__ (".symver old_xcrypt_gensalt,xcrypt_gensalt@XCRYPT_2.0");
__asm__ (".symver old_xcrypt_gensalt_r,xcrypt_gensalt_r@XCRYPT_2.0");
__asm__ (".symver old_crypt_gensalt_r,crypt_gensalt_r@XCRYPT_2.0");

static int
hexval (int c)
{
  if (c >= '0' && c <= '9') return c - '0';
  if (c >= 'a' && c <= 'f') return c - 'a' + 10;
  return -1;
}

static char *
unhex (const char *t, long *len)
{
  if (!strcmp (t, "-")) { *len = -1; return 0; }
  if (!strcmp (t, ".")) { *len = 0; return calloc (1, 1); }
  size_t n = strlen (t) / 2;
  char *b = calloc (n + 1, 1);
  for (size_t i = 0; i < n; i++) b[i] = (char) ((hexval (t[2 * i]) << 4) | hexval (t[2 * i + 1]));
  *len = (long) n;
  return b;
}

static void
show (const char *tag, const char *s)
{
  printf (" %s=", tag);
  if (!s) { printf ("NULL"); return; }
  for (const unsigned char *p = (const unsigned char *) s; *p && p - (const unsigned char *) s < 400; p++)
    printf ("%02x", *p);
  if (!*s) printf (".");
}

#include <pthread.h>
struct thr_arg { const char *p, *s; char *ret; char copy[400]; };
static void *
thr_crypt (void *v)
{
  struct thr_arg *t = v;
  t->ret = old_crypt (t->p, t->s);
  snprintf (t->copy, sizeof t->copy, "%s", t->ret ? t->ret : "");
  return 0;
}

static long n_viol;
#define VIOL(...) do { n_viol++; printf ("VIOL "); printf (__VA_ARGS__); printf ("\n"); } while (0)

static int
same (const char *a, const char *b)
{
  if (!a || !b) return a == b;
  return !strcmp (a, b);
}

int
main (void)
{
  char *line = 0;
  size_t cap = 0;
  unsigned char *big = malloc (GLIBC_CRYPT_DATA_SIZE);
  struct crypt_data *cd = calloc (1, sizeof *cd);
  setvbuf (stdout, 0, _IOFBF, 1 << 16);
  printf ("I sizeof=%zu out=%d gen=%d\n", sizeof (struct crypt_data), CRYPT_OUTPUT_SIZE, CRYPT_GENSALT_OUTPUT_SIZE);
  while (getline (&line, &cap, stdin) > 0)
    {
      char *a[5]; int n = 0;
      for (char *t = strtok (line, " \n"); t && n < 5; t = strtok (0, " \n")) a[n++] = t;
      if (!n) continue;
      if (a[0][0] == 'c' && n >= 3)
        {
          long pl, sl;
          char *p = unhex (a[1], &pl), *s = unhex (a[2], &sl);
          char keep[5][400];
          const char *r[5];
          /* modern counterparts */
          char *m_rn = crypt_rn (p, s, cd, (int) sizeof *cd);
          snprintf (keep[0], 400, "%s", m_rn ? m_rn : ""); r[0] = m_rn ? keep[0] : 0;
          char *m_r = crypt_r (p, s, cd);
          snprintf (keep[1], 400, "%s", m_r ? m_r : ""); r[1] = m_r ? keep[1] : 0;
          /* old glibc-era binary: crypt_r with the 131232-byte object, canary beyond 32768 */
          memset (big, 0, GLIBC_CRYPT_DATA_SIZE);
          memset (big + 32768, 0xC7, GLIBC_CRYPT_DATA_SIZE - 32768);
          char *o_r = old_crypt_r (p, s, big);
          snprintf (keep[2], 400, "%s", o_r ? o_r : ""); r[2] = o_r ? keep[2] : 0;
          for (size_t i = 32768; i < GLIBC_CRYPT_DATA_SIZE; i++)
            if (big[i] != 0xC7) { VIOL ("write-beyond-32768 crypt_r@GLIBC_2.2.5 offset=%zu", i); break; }
          if (o_r && o_r != (char *) big) VIOL ("crypt_r@GLIBC_2.2.5 result not at the start of the object");
          char *o_c = old_crypt (p, s);
          snprintf (keep[3], 400, "%s", o_c ? o_c : ""); r[3] = o_c ? keep[3] : 0;
          char *x_c = old_xcrypt (p, s);
          snprintf (keep[4], 400, "%s", x_c ? x_c : "");  r[4] = x_c ? keep[4] : 0;
          char *x_r = old_xcrypt_r (p, s, cd);
          char xr[400]; snprintf (xr, 400, "%s", x_r ? x_r : "");
          char *f_c = old_fcrypt (p, s);
          char fc[400]; snprintf (fc, 400, "%s", f_c ? f_c : "");
          /* compat symbols behave as their modern counterparts (crypt_r returns the token on failure) */
          if (!same (r[2], r[1])) VIOL ("crypt_r@GLIBC_2.2.5 differs from crypt_r: %s vs %s", r[2] ? r[2] : "NULL", r[1] ? r[1] : "NULL");
          if (!same (r[3], r[1])) VIOL ("crypt@GLIBC_2.2.5 differs from crypt_r: %s vs %s", r[3] ? r[3] : "NULL", r[1] ? r[1] : "NULL");
          if (!same (r[4], r[1])) VIOL ("xcrypt differs from crypt_r: %s vs %s", r[4] ? r[4] : "NULL", r[1] ? r[1] : "NULL");
          if (!same (x_r ? xr : 0, r[1])) VIOL ("xcrypt_r differs from crypt_r");
          if (!same (f_c ? fc : 0, r[1])) VIOL ("fcrypt differs from crypt: %s vs %s", f_c ? fc : "NULL", r[1] ? r[1] : "NULL");
          /* the released header encourages keeping the arguments in the object's own fields:
             an old program that does so expects them to survive the call */
          int kept = -1;
          if (p && s && strlen (p) < sizeof cd->input && strlen (s) < sizeof cd->setting)
            {
              memset (cd, 0, sizeof *cd);
              strcpy (cd->input, p);
              strcpy (cd->setting, s);
              char *io = crypt_r (cd->input, cd->setting, cd);
              kept = !strcmp (cd->input, p) && !strcmp (cd->setting, s);
              if (!same (io, r[1])) VIOL ("crypt_r with in-object arguments differs: %s vs %s", io ? io : "NULL", r[1] ? r[1] : "NULL");
            }
          printf ("C kept=%d", kept);
          show ("rn", r[0]); show ("r", r[1]); show ("old_r", r[2]); show ("old", r[3]); show ("x", r[4]);
          printf ("\n");
          free (p); free (s);
        }
      else if (a[0][0] == 'g' && n >= 4)
        {
          long pl, rl;
          char *pre = unhex (a[1], &pl), *rb = unhex (a[3], &rl);
          unsigned long cnt = strtoul (a[2], 0, 0);
          char b0[CRYPT_GENSALT_OUTPUT_SIZE], b1[CRYPT_GENSALT_OUTPUT_SIZE], b2[CRYPT_GENSALT_OUTPUT_SIZE];
          char *g0 = crypt_gensalt_rn (pre, cnt, rb, (int) rl, b0, sizeof b0);
          char *g1 = old_xcrypt_gensalt_r (pre, cnt, rb, (int) rl, b1, sizeof b1);
          char *g2 = old_crypt_gensalt_r (pre, cnt, rb, (int) rl, b2, sizeof b2);
          char *g3 = old_xcrypt_gensalt (pre, cnt, rb, (int) rl);
          char k3[200]; snprintf (k3, 200, "%s", g3 ? g3 : "");
          char *g4 = crypt_gensalt_ra (pre, cnt, rb, (int) rl);
          if (!same (g0, g1)) VIOL ("xcrypt_gensalt_r differs from crypt_gensalt_rn");
          if (!same (g0, g2)) VIOL ("crypt_gensalt_r differs from crypt_gensalt_rn");
          if (!same (g0, g3 ? k3 : 0)) VIOL ("xcrypt_gensalt differs from crypt_gensalt_rn");
          if (!same (g0, g4)) VIOL ("crypt_gensalt_ra differs from crypt_gensalt_rn");
          printf ("G"); show ("rn", g0); show ("ra", g4); printf (" cs=%d", g0 ? crypt_checksalt (g0) : -1); printf ("\n");
          free (g4); free (pre); free (rb);
        }
      else if (a[0][0] == 'z' && n >= 4)
        {
          /* binaries carry the buffer size of the header they were built with (30 for the Openwall-derived
             <crypt.h> of Owl/ALT/SUSE, 192 today): which sizes are enough is part of the interface */
          long pl, rl;
          char *pre = unhex (a[1], &pl), *rb = unhex (a[3], &rl);
          unsigned long cnt = strtoul (a[2], 0, 0);
          /* downwards from 200 until the first size that is refused; in a child process, because the released
             4.4.33 aborts on an assertion for some sizes just below the smallest one it accepts */
          int pfd[2];
          int minsz = -1, differ = 0, bad = 0;
          char first[200] = "";
          fflush (stdout);
          if (pipe (pfd)) { printf ("Z pipe-failed\n"); free (pre); free (rb); continue; }
          pid_t kid = fork ();
          if (kid == 0)
            {
              close (pfd[0]);
              for (int osz = 200; osz >= 1; osz--)
                {
                  char *b = malloc ((size_t) osz);
                  memset (b, 0x5a, (size_t) osz);
                  char *g = crypt_gensalt_rn (pre, cnt, rb, (int) rl, b, osz);
                  char msg[260];
                  int flag = (g && g != b) ? 1 : (g && !memchr (b, 0, (size_t) osz)) ? 2 : 0;
                  int k = snprintf (msg, sizeof msg, "%d %d %.190s\n", osz, flag, g && !flag ? g : "-");
                  if (write (pfd[1], msg, (size_t) k) != k) _exit (3);
                  if (!g) _exit (0);
                  free (b);
                }
              _exit (0);
            }
          close (pfd[1]);
          FILE *pf = fdopen (pfd[0], "r");
          char ln[300];
          while (pf && fgets (ln, sizeof ln, pf))
            {
              int osz = 0, flag = 0; char res[200] = "";
              if (sscanf (ln, "%d %d %199s", &osz, &flag, res) < 3) continue;
              if (flag) bad = flag;
              if (!strcmp (res, "-")) break;
              if (!first[0]) snprintf (first, sizeof first, "%s", res);
              else if (strcmp (first, res)) differ++;
              minsz = osz;
            }
          if (pf) fclose (pf);
          int st = 0;
          waitpid (kid, &st, 0);
          if (bad == 1) VIOL ("crypt_gensalt_rn returns a pointer that is not the caller's buffer");
          if (bad == 2) VIOL ("crypt_gensalt_rn result not terminated inside the buffer");
          /* (the SHA-crypt family legitimately writes fewer salt characters into a smaller buffer) */
          printf ("Z sizes-with-another-result=%d ", differ);
          printf ("min=%d", minsz); show ("first", minsz >= 0 ? first : 0); printf ("\n");
          free (pre); free (rb);
        }
      else if (a[0][0] == 'd' && n >= 3)
        {
          long kl, bl;
          char *k = unhex (a[1], &kl), *b = unhex (a[2], &bl);
          char k64[64], b64[64], c64[64];
          for (int i = 0; i < 64; i++) { k64[i] = (k[i / 8] >> (7 - i % 8)) & 1; b64[i] = (b[i / 8] >> (7 - i % 8)) & 1; }
          memcpy (c64, b64, 64);
          old_setkey (k64); old_encrypt (b64, 0);
          /* a glibc-era caller's object: recycled memory with only 'initialized' (the last word then) cleared */
          memset (big, (k[0] & 1) ? 0xA5 : 0, GLIBC_CRYPT_DATA_SIZE);
          memset (big + GLIBC_CRYPT_DATA_SIZE - 16, 0, 16);
          memset (big + 32768 - 1024, 0, 1024);
          old_setkey_r (k64, big); old_encrypt_r (c64, 0, big);
          if (memcmp (b64, c64, 64)) VIOL ("encrypt and encrypt_r disagree");
          printf ("D e=");
          for (int i = 0; i < 8; i++) { int v = 0; for (int j = 0; j < 8; j++) v = (v << 1) | (b64[i * 8 + j] & 1); printf ("%02x", v); }
          /* old binaries may pass any non-zero edflag to decrypt */
          static const int fl[] = { 1, 2, -1, 256, 2147483647 };
          old_encrypt (b64, fl[(k[0] ^ b[1]) % 5]);
          old_encrypt_r (c64, fl[(k[1] ^ b[0]) % 5], big);
          printf (" d=");
          for (int i = 0; i < 8; i++) { int v = 0; for (int j = 0; j < 8; j++) v = (v << 1) | (b64[i * 8 + j] & 1); printf ("%02x", v); }
          printf (" dr=");
          for (int i = 0; i < 8; i++) { int v = 0; for (int j = 0; j < 8; j++) v = (v << 1) | (c64[i * 8 + j] & 1); printf ("%02x", v); }
          printf ("\n");
          free (k); free (b);
        }
      else if (a[0][0] == 'h' && n >= 5)
        {
          /* history on the process-global state, through the compat symbols only:
             setkey ; crypt (any outcome) ; encrypt - the key must survive the hash call */
          long kl, bl, pl, sl;
          char *k = unhex (a[1], &kl), *b = unhex (a[2], &bl), *p = unhex (a[3], &pl), *s = unhex (a[4], &sl);
          char k64[64], b64[64], c64[64];
          for (int i = 0; i < 64; i++) { k64[i] = (k[i / 8] >> (7 - i % 8)) & 1; b64[i] = (b[i / 8] >> (7 - i % 8)) & 1; }
          memcpy (c64, b64, 64);
          old_setkey (k64);
          switch ((k[2] ^ b[2]) % 3)
            {
            case 0: (void) old_crypt (p, s); break;
            case 1: (void) old_fcrypt (p, s); break;
            default: (void) old_xcrypt (p, s); break;
            }
          old_encrypt (b64, 0);
          old_setkey_r (k64, big); old_encrypt_r (c64, 0, big);
          if (memcmp (b64, c64, 64)) VIOL ("setkey;crypt;encrypt disagrees with setkey_r;encrypt_r: the hash call disturbed the static key");
          printf ("H e=");
          for (int i = 0; i < 8; i++) { int v = 0; for (int j = 0; j < 8; j++) v = (v << 1) | (b64[i * 8 + j] & 1); printf ("%02x", v); }
          printf ("\n");
          free (k); free (b); free (p); free (s);
        }
      else if (a[0][0] == 't' && n >= 3)
        {
          /* the static result of crypt/fcrypt is ONE process-wide buffer: a string returned to a worker thread
             is still there, at the same address, after that thread has exited */
          long pl, sl;
          char *p = unhex (a[1], &pl), *s = unhex (a[2], &sl);
          struct thr_arg ta = { p, s, 0, { 0 } };
          pthread_t th;
          if (!pthread_create (&th, 0, thr_crypt, &ta))
            {
              pthread_join (th, 0);
              char *mine = old_crypt (p, s);
              char now[400];
              snprintf (now, sizeof now, "%s", ta.ret ? ta.ret : "");   /* read after the thread is gone */
              printf ("T same-address=%d survives=%d", ta.ret == mine, mine && !strcmp (ta.copy, mine));
              show ("thread", ta.copy[0] ? ta.copy : 0); printf ("\n");
              (void) now;
            }
          free (p); free (s);
        }
      else if (a[0][0] == 'p')
        {
          const char *pm = crypt_preferred_method ();
          printf ("P"); show ("pm", pm); printf (" cs=%d\n", pm ? crypt_checksalt (pm) : -1);
        }
    }
  printf ("E viol=%ld\n", n_viol);
  return 0;
}
