/* vprim - primitive-level monitors for libxcrypt (DESIGN C16, C09 item 4).

   vprim cmp <quick|thorough> <seed>
       MD4, MD5, SHA-1, SHA-256, SHA-512, Streebog-256/512, HMAC-SHA1,
       HMAC-SHA256, HMAC-Streebog-256, PBKDF2-HMAC-SHA256 through the library's
       internal symbols against libgcrypt (in process), over lengths x split
       points x alignments; contexts must be zero after Final.
   vprim wipe <seed> <n>
       every primitive operation with a secret message/key runs on a poisoned
       private stack which is scanned afterwards for encodings of the secret.

   Output: "VIOL <what> <detail>", "CLS ...", "STAT {json}"; exit 0/1.  */

#include "crypt-port.h"
#include "alg-md4.h"
#include "alg-md5.h"
#include "alg-sha1.h"
#include "alg-hmac-sha1.h"
#include "alg-sha256.h"
#include "alg-sha512.h"
#include "alg-gost3411-2012-core.h"
#include "alg-gost3411-2012-hmac.h"

#include <gcrypt.h>
#include <stdio.h>
#include <stdlib.h>
#include <string.h>
#include <sys/mman.h>
#include <ucontext.h>

static uint64_t rs;
static uint64_t
rnd (void)
{
  uint64_t z = (rs += 0x9E3779B97F4A7C15ull);
  z = (z ^ (z >> 30)) * 0xBF58476D1CE4E5B9ull;
  z = (z ^ (z >> 27)) * 0x94D049BB133111EBull;
  return z ^ (z >> 31);
}

static long n_viol, n_ops, n_ctx, n_cmp, n_scan;
static long n_fast, n_slow, n_resid;

static void
viol (const char *what, const char *fmt, ...)
{
  va_list ap;
  n_viol++;
  if (n_viol > 40) return;
  printf ("VIOL %s ", what);
  va_start (ap, fmt);
  vprintf (fmt, ap);
  va_end (ap);
  printf ("\n");
}

static int
all_zero (const void *p, size_t n)
{
  const unsigned char *b = p;
  for (size_t i = 0; i < n; i++) if (b[i]) return 0;
  return 1;
}

/* ---- reference side (libgcrypt) ---- */

enum { A_MD4, A_MD5, A_SHA1, A_SHA256, A_SHA512, A_GOST256, A_GOST512, A_N };
static const char *aname[] = { "md4", "md5", "sha1", "sha256", "sha512", "streebog256", "streebog512" };
static const int galgo[] = { GCRY_MD_MD4, GCRY_MD_MD5, GCRY_MD_SHA1, GCRY_MD_SHA256, GCRY_MD_SHA512,
                             GCRY_MD_STRIBOG256, GCRY_MD_STRIBOG512 };
static const size_t dlen[] = { 16, 16, 20, 32, 64, 32, 64 };
static const size_t blen[] = { 64, 64, 64, 64, 128, 64, 64 };

static void
ref_digest (int a, const void *m, size_t n, unsigned char *out)
{
  gcry_md_hash_buffer (galgo[a], out, m, n);
}

/* HMAC built from the reference digest (RFC 2104), valid for every key length */
static void
ref_hmac (int a, const unsigned char *key, size_t klen, const unsigned char *m, size_t n, unsigned char *out)
{
  unsigned char k[128], pad[128], inner[64];
  size_t B = blen[a], D = dlen[a];
  memset (k, 0, sizeof k);
  if (klen > B) ref_digest (a, key, klen, k);
  else memcpy (k, key, klen);
  unsigned char *buf = malloc (B + (n > D ? n : D));
  for (size_t i = 0; i < B; i++) pad[i] = k[i] ^ 0x36;
  memcpy (buf, pad, B); memcpy (buf + B, m, n);
  ref_digest (a, buf, B + n, inner);
  for (size_t i = 0; i < B; i++) pad[i] = k[i] ^ 0x5c;
  memcpy (buf, pad, B); memcpy (buf + B, inner, D);
  ref_digest (a, buf, B + D, out);
  free (buf);
}

static void
ref_pbkdf2 (const unsigned char *pw, size_t pwlen, const unsigned char *salt, size_t saltlen,
            uint64_t c, unsigned char *out, size_t dk)
{
  unsigned char *s = malloc (saltlen + 4), u[32], t[32];
  memcpy (s, salt, saltlen);
  for (uint32_t i = 1; dk; i++)
    {
      s[saltlen] = (unsigned char) (i >> 24); s[saltlen + 1] = (unsigned char) (i >> 16);
      s[saltlen + 2] = (unsigned char) (i >> 8); s[saltlen + 3] = (unsigned char) i;
      ref_hmac (A_SHA256, pw, pwlen, s, saltlen + 4, u);
      memcpy (t, u, 32);
      for (uint64_t j = 1; j < c; j++)
        {
          ref_hmac (A_SHA256, pw, pwlen, u, 32, u);
          for (int k = 0; k < 32; k++) t[k] ^= u[k];
        }
      size_t n = dk < 32 ? dk : 32;
      memcpy (out, t, n);
      out += n; dk -= n;
    }
  free (s);
}

/* ---- library side ---- */

static union
{
  MD4_CTX md4; MD5_CTX md5; struct sha1_ctx sha1; SHA256_CTX s256; SHA512_CTX s512;
  GOST34112012Context gost; HMAC_SHA256_CTX h256; gost_hmac_256_t ghmac;
  unsigned char raw[4096];
} U;

static size_t
ctx_size (int a)
{
  switch (a)
    {
    case A_MD4: return sizeof (MD4_CTX);
    case A_MD5: return sizeof (MD5_CTX);
    case A_SHA1: return sizeof (struct sha1_ctx);
    case A_SHA256: return sizeof (SHA256_CTX);
    case A_SHA512: return sizeof (SHA512_CTX);
    default: return sizeof (GOST34112012Context);
    }
}

static void
lib_init (int a, void *c)
{
  switch (a)
    {
    case A_MD4: MD4_Init (c); break;
    case A_MD5: MD5_Init (c); break;
    case A_SHA1: sha1_init_ctx (c); break;
    case A_SHA256: SHA256_Init (c); break;
    case A_SHA512: SHA512_Init (c); break;
    case A_GOST256: GOST34112012Init (c, 256); break;
    case A_GOST512: GOST34112012Init (c, 512); break;
    }
}

static void
lib_update (int a, void *c, const void *m, size_t n)
{
  switch (a)
    {
    case A_MD4: MD4_Update (c, m, n); break;
    case A_MD5: MD5_Update (c, m, n); break;
    case A_SHA1: sha1_process_bytes (m, c, n); break;
    case A_SHA256: SHA256_Update (c, m, n); break;
    case A_SHA512: SHA512_Update (c, m, n); break;
    default: GOST34112012Update (c, m, n); break;
    }
}

static void
lib_final (int a, void *c, unsigned char *out)
{
  switch (a)
    {
    case A_MD4: MD4_Final (out, c); break;
    case A_MD5: MD5_Final (out, c); break;
    case A_SHA1: sha1_finish_ctx (c, out); break;
    case A_SHA256: SHA256_Final (out, c); break;
    case A_SHA512: SHA512_Final (out, c); break;
    default: GOST34112012Final (c, out); GOST34112012Cleanup (c); break;
    }
}

/* message placed so that it ends flush with the end of its heap block */
static unsigned char *
place (const unsigned char *src, size_t n, unsigned off, unsigned char **block)
{
  *block = malloc (n + off);
  if (n) memcpy (*block + off, src, n);
  return *block + off;
}

static unsigned char *pool_bytes;
#define POOL_N 16384

static const unsigned char *const_src;   /* when set: message content is this constant-byte pool */

static void
check_digest (int a, size_t len, const size_t *cuts, int ncuts, unsigned off, unsigned ctxoff, const char *cls)
{
  unsigned char want[64], got[64], *blk;
  const unsigned char *src = const_src ? const_src : pool_bytes + (rnd () % (POOL_N - len - 1));
  unsigned char *m = place (src, len, off, &blk);
  unsigned char *cblk = malloc (ctx_size (a) + 64);
  /* natural alignment of the context is required by the C types; vary it in multiples of 8 */
  void *c = cblk + (ctxoff & ~7u);
  ref_digest (a, m, len, want);
  lib_init (a, c);
  size_t pos = 0;
  for (int i = 0; i < ncuts; i++)
    {
      lib_update (a, c, m + pos, cuts[i] - pos);
      pos = cuts[i];
    }
  lib_update (a, c, m + pos, len - pos);
  memset (got, 0xEE, sizeof got);
  lib_final (a, c, got);
  n_cmp++;
  if (memcmp (want, got, dlen[a]))
    viol (aname[a], "digest mismatch len=%zu cuts=%d first-cut=%zu off=%u class=%s",
          len, ncuts, ncuts ? cuts[0] : 0, off, cls);
  n_ctx++;
  if (!all_zero (c, ctx_size (a)))
    viol ("ctx-not-erased", "%s context not all zero after Final (len=%zu)", aname[a], len);
  free (blk); free (cblk);
}

static void
check_buf_forms (size_t len, unsigned off)
{
  unsigned char want[64], got[64], *blk;
  const unsigned char *src = pool_bytes + (rnd () % (POOL_N - len - 1));
  unsigned char *m = place (src, len, off, &blk);
  ref_digest (A_SHA256, m, len, want);
  SHA256_Buf (m, len, got);
  n_cmp++;
  if (memcmp (want, got, 32)) viol ("sha256", "SHA256_Buf mismatch len=%zu", len);
  ref_digest (A_SHA512, m, len, want);
  SHA512_Buf (m, len, got);
  n_cmp++;
  if (memcmp (want, got, 64)) viol ("sha512", "SHA512_Buf mismatch len=%zu", len);
  free (blk);
}

static void
check_hmacs (size_t klen, size_t mlen, unsigned off)
{
  unsigned char want[64], got[64], *kb, *mb;
  const unsigned char *ks = pool_bytes + (rnd () % (POOL_N - klen - 1));
  const unsigned char *ms = pool_bytes + (rnd () % (POOL_N - mlen - 1));
  unsigned char *k = place (ks, klen, off, &kb), *m = place (ms, mlen, (off * 7) & 15, &mb);
  /* HMAC-SHA1 */
  ref_hmac (A_SHA1, k, klen, m, mlen, want);
  hmac_sha1_process_data (m, mlen, k, klen, got);
  n_cmp++;
  if (memcmp (want, got, 20)) viol ("hmac-sha1", "mismatch keylen=%zu msglen=%zu", klen, mlen);
  /* HMAC-SHA256, one shot and incremental with a split */
  ref_hmac (A_SHA256, k, klen, m, mlen, want);
  HMAC_SHA256_Buf (k, klen, m, mlen, got);
  n_cmp++;
  if (memcmp (want, got, 32)) viol ("hmac-sha256", "Buf mismatch keylen=%zu msglen=%zu", klen, mlen);
  if (mlen >= 32)
    {
      /* in place, as alg-yescrypt-opt.c itself calls it: the digest replaces the head of the message */
      unsigned char *ib, *im = place (m, mlen, (off * 3) & 15, &ib);
      HMAC_SHA256_Buf (k, klen, im, mlen, im);
      n_cmp++;
      if (memcmp (want, im, 32)) viol ("hmac-sha256", "Buf in place (digest == message) mismatch keylen=%zu msglen=%zu", klen, mlen);
      free (ib);
    }
  HMAC_SHA256_CTX *hc = malloc (sizeof *hc);
  size_t cut = mlen ? rnd () % (mlen + 1) : 0;
  HMAC_SHA256_Init (hc, k, klen);
  HMAC_SHA256_Update (hc, m, cut);
  HMAC_SHA256_Update (hc, m + cut, mlen - cut);
  HMAC_SHA256_Final (got, hc);
  n_cmp++;
  if (memcmp (want, got, 32)) viol ("hmac-sha256", "incremental mismatch keylen=%zu msglen=%zu cut=%zu", klen, mlen, cut);
  n_ctx++;
  if (!all_zero (hc, sizeof *hc)) viol ("ctx-not-erased", "HMAC_SHA256_CTX not zero after Final");
  free (hc);
  /* HMAC-Streebog-256: the primitive states its own domain, keys of 32..64 bytes */
  if (klen >= 32 && klen <= 64)
    {
      gost_hmac_256_t *gb = malloc (sizeof *gb);
      ref_hmac (A_GOST256, k, klen, m, mlen, want);
      gost_hmac256 (k, klen, m, mlen, got, gb);
      n_cmp++;
      if (memcmp (want, got, 32)) viol ("hmac-streebog256", "mismatch keylen=%zu msglen=%zu", klen, mlen);
      n_ctx++;
      if (!all_zero (gb, sizeof *gb)) viol ("ctx-not-erased", "gost_hmac_256_t not zero after gost_hmac256");
      free (gb);
    }
  free (kb); free (mb);
}

static void
check_pbkdf2 (size_t pwlen, size_t saltlen, uint64_t c, size_t dk, unsigned off)
{
  unsigned char *want = malloc (dk + 1), *got, *gb, *pb, *sb;
  const unsigned char *ps = pool_bytes + (rnd () % (POOL_N - pwlen - 1));
  const unsigned char *ss = pool_bytes + (rnd () % (POOL_N - saltlen - 1));
  unsigned char *pw = place (ps, pwlen, off, &pb), *salt = place (ss, saltlen, (off + 3) & 15, &sb);
  got = place (pool_bytes, dk, (off + 5) & 15, &gb);
  memset (got, 0xEE, dk);
  ref_pbkdf2 (pw, pwlen, salt, saltlen, c, want, dk);
  PBKDF2_SHA256 (pw, pwlen, salt, saltlen, c, got, dk);
  n_cmp++;
  if (c == 1 && (dk & 31) == 0 && (saltlen & 63) <= 51) n_fast++; else n_slow++;
  if (memcmp (want, got, dk))
    viol ("pbkdf2-sha256", "mismatch pwlen=%zu saltlen=%zu c=%lu dkLen=%zu", pwlen, saltlen, (unsigned long) c, dk);
  if (pwlen && saltlen)
    {
      /* second opinion on the reference itself */
      unsigned char *g2 = malloc (dk);
      if (!gcry_kdf_derive (pw, pwlen, GCRY_KDF_PBKDF2, GCRY_MD_SHA256, salt, saltlen, c, dk, g2)
          && memcmp (g2, want, dk))
        { fprintf (stderr, "reference PBKDF2 disagrees with gcry_kdf_derive\n"); exit (2); }
      free (g2);
    }
  free (want); free (gb); free (pb); free (sb);
}

static int
self_test (void)
{
  /* RFC 1321 / FIPS 180 "abc" vectors through the reference side */
  unsigned char d[64];
  static const unsigned char md5_abc[] = { 0x90, 0x01, 0x50, 0x98, 0x3c, 0xd2, 0x4f, 0xb0 };
  static const unsigned char sha256_abc[] = { 0xba, 0x78, 0x16, 0xbf, 0x8f, 0x01, 0xcf, 0xea };
  static const unsigned char md4_abc[] = { 0xa4, 0x48, 0x01, 0x7a, 0xaf, 0x21, 0xd8, 0x52 };
  ref_digest (A_MD5, "abc", 3, d); if (memcmp (d, md5_abc, 8)) return 1;
  ref_digest (A_SHA256, "abc", 3, d); if (memcmp (d, sha256_abc, 8)) return 1;
  ref_digest (A_MD4, "abc", 3, d); if (memcmp (d, md4_abc, 8)) return 1;
  /* RFC 4231 test case 2 for the home-made HMAC */
  static const unsigned char h2[] = { 0x5b, 0xdc, 0xc1, 0x46, 0xbf, 0x60, 0x75, 0x4e };
  ref_hmac (A_SHA256, (const unsigned char *) "Jefe", 4, (const unsigned char *) "what do ya want for nothing?", 28, d);
  if (memcmp (d, h2, 8)) return 1;
  /* home-made HMAC against libgcrypt's for each algorithm */
  for (int a = 0; a < A_N; a++)
    {
      gcry_md_hd_t h;
      unsigned char key[70];
      for (int i = 0; i < 70; i++) key[i] = (unsigned char) (i * 3 + 1);
      if (gcry_md_open (&h, galgo[a], GCRY_MD_FLAG_HMAC)) continue;
      if (gcry_md_setkey (h, key, 70)) { gcry_md_close (h); continue; }
      gcry_md_write (h, "message", 7);
      ref_hmac (a, key, 70, (const unsigned char *) "message", 7, d);
      if (memcmp (gcry_md_read (h, 0), d, dlen[a])) return 1;
      gcry_md_close (h);
    }
  return 0;
}

static int
cmd_cmp (int thorough)
{
  size_t L = thorough ? 1100 : 300;
  for (int a = 0; a < A_N; a++)
    {
      /* every two-way split point of every length up to L */
      for (size_t len = 0; len <= L; len++)
        for (size_t cut = 0; cut <= len; cut++)
          check_digest (a, len, &cut, 1, (unsigned) ((len + cut) & 15), (unsigned) (cut & 63), "two-way");
      printf ("CLS digest %s two-way-all-splits-upto-%zu\n", aname[a], L);
      /* block-boundary lengths up to 1100 with a few splits (quick tier) */
      if (!thorough)
        for (size_t len = 301; len <= 1100; len++)
          {
            size_t b = blen[a];
            if (len % b > 2 && len % b < b - 18 && len % 64 > 2) continue;
            size_t cuts[4] = { 0, len / 2, len - 1, len };
            for (int i = 0; i < 4; i++)
              check_digest (a, len, &cuts[i], 1, (unsigned) (len & 15), 0, "boundary");
          }
      /* structured contents: carries and sign handling show only on extreme byte values
         (all 0xFF, all 0x00, 0x80, 0x7F, and 0xFF runs inside random data) */
      {
        static const unsigned char vals[] = { 0xFF, 0x00, 0x80, 0x7F, 0x01, 0xFE };
        unsigned char *cp = malloc (1200);
        for (size_t v = 0; v < sizeof vals; v++)
          {
            memset (cp, vals[v], 1200);
            const_src = cp;
            for (size_t len = 0; len <= 1100; len += (thorough || len < 300) ? 1 : 7)
              {
                size_t cut = len / 3;
                check_digest (a, len, &cut, 1, (unsigned) (len & 15), 0, "constant-bytes");
              }
          }
        for (int k = 0; k < 400; k++)
          {
            size_t len = 64 + rnd () % 900, at = rnd () % (len - 40), run = 8 + rnd () % 32;
            for (size_t i = 0; i < 1200; i++) cp[i] = (unsigned char) rnd ();
            memset (cp + at, 0xFF, run);
            const_src = cp;
            size_t cut = rnd () % (len + 1);
            check_digest (a, len, &cut, 1, (unsigned) (k & 15), 0, "ff-runs");
          }
        const_src = 0;
        free (cp);
      }
      printf ("CLS digest %s constant-bytes\n", aname[a]);
      /* random multi-way splits including zero-length updates */
      int nm = thorough ? 20000 : 2500;
      for (int i = 0; i < nm; i++)
        {
          size_t len = rnd () % 1101, cuts[8];
          int nc = (int) (rnd () % 8) + 1;
          for (int j = 0; j < nc; j++) cuts[j] = len ? rnd () % (len + 1) : 0;
          for (int j = 0; j < nc; j++)
            for (int k = j + 1; k < nc; k++)
              if (cuts[k] < cuts[j]) { size_t t = cuts[j]; cuts[j] = cuts[k]; cuts[k] = t; }
          check_digest (a, len, cuts, nc, (unsigned) (rnd () & 15), (unsigned) (rnd () & 63), "multi");
        }
      printf ("CLS digest %s multi-way\n", aname[a]);
    }
  for (size_t len = 0; len <= 1100; len += thorough ? 1 : 3)
    check_buf_forms (len, (unsigned) (len & 15));
  printf ("CLS digest buf-forms\n");
  /* HMACs: key lengths 0..200 x message lengths around block boundaries */
  static const size_t ml[] = { 0, 1, 8, 55, 56, 57, 63, 64, 65, 111, 112, 119, 120, 127, 128, 129, 200, 257, 1000 };
  for (size_t k = 0; k <= 200; k++)
    for (size_t i = 0; i < sizeof ml / sizeof ml[0]; i++)
      {
        if (!thorough && (k % 3) && k != 63 && k != 64 && k != 65 && k != 32 && k != 128 && k != 129 && k != 127) continue;
        check_hmacs (k, ml[i], (unsigned) ((k + i) & 15));
      }
  {
    unsigned char *save = pool_bytes;
    unsigned char *ff = malloc (POOL_N);
    memset (ff, 0xFF, POOL_N);
    pool_bytes = ff;
    for (size_t k = 0; k <= 200; k += 5)
      for (size_t i = 0; i < sizeof ml / sizeof ml[0]; i += 2)
        check_hmacs (k, ml[i], (unsigned) (k & 15));
    for (size_t sl = 0; sl <= 80; sl += 4)
      check_pbkdf2 (40, sl, 1, 64, 0), check_pbkdf2 (70, sl, 3, 33, 1);
    pool_bytes = save;
    free (ff);
  }
  printf ("CLS hmac keylen-0..200\n");
  /* PBKDF2 grid */
  static const uint64_t its[] = { 1, 2, 3, 7, 50 };
  static const size_t pls[] = { 0, 1, 63, 64, 65, 200 };
  for (size_t dk = 1; dk <= 100; dk++)
    for (int ci = 0; ci < 5; ci++)
      for (size_t sl = 0; sl <= 80; sl++)
        for (int pi = 0; pi < 6; pi++)
          {
            if (!thorough)
              {
                /* quick: thin out the grid but keep every salt residue and the fast path */
                if ((dk + sl + (size_t) ci + (size_t) pi) % 23 && !(dk % 32 == 0 && ci == 0 && pi == 3)) continue;
              }
            check_pbkdf2 (pls[pi], sl, its[ci], dk, (unsigned) ((dk + sl) & 15));
          }
  printf ("CLS pbkdf2 grid\n");
  /* the block-multiple outputs the KDF really requests + long outputs (counter > 255) */
  for (size_t rp = 1; rp <= 8; rp++)
    for (size_t sl = 0; sl <= 70; sl += thorough ? 1 : 7)
      check_pbkdf2 (20, sl, 1, 128 * rp, (unsigned) (sl & 15));
  check_pbkdf2 (20, 16, 1, 8192 + 32, 0);
  check_pbkdf2 (20, 60, 1, 8160 + 64, 3);
  check_pbkdf2 (70, 16, 2, 8192 + 7, 5);
  check_pbkdf2 (0, 0, 1, 32, 0);
  printf ("CLS pbkdf2 kdf-sizes\n");
  printf ("STAT {\"ops\": %ld, \"comparisons\": %ld, \"ctx_checks\": %ld, \"pbkdf2_fast_path\": %ld, "
          "\"pbkdf2_generic_path\": %ld, \"max_len\": %zu}\n", n_cmp, n_cmp, n_ctx, n_fast, n_slow, L);
  return n_viol ? 1 : 0;
}

/* ---- wipe mode: poisoned private stack ---- */

#define PSTACK ((size_t) 1 << 19)
static unsigned char *pstack;
/* Messages whose BIT count does not fit in 32 bits (2^29 bytes and more) handed over in ONE update call, in two
   unequal calls, and in 1 MiB pieces: the length arithmetic of the primitives (bit counters kept in two words,
   size << 3, size >> 29) is not exercised by anything shorter.  */
static int
cmd_huge (int lg, int a)
{
  if (a < 0 || a >= A_N || lg < 20 || lg > 33) return 2;
  size_t n = ((size_t) 1 << lg) + 3 + (size_t) (rnd () % 61);
  uint64_t *m = malloc (n + 8);
  if (!m) { printf ("STAT {\"comparisons\": 0, \"huge_skipped_no_memory\": 1}\n"); return 0; }
  uint64_t x = rnd ();
  for (size_t i = 0; i < n / 8 + 1; i++) { x = x * 6364136223846793005ull + 1442695040888963407ull; m[i] = x; }
  unsigned char want[64], got[64];
  unsigned char *cblk = malloc (ctx_size (a) + 64);
  void *c = cblk;
  ref_digest (a, m, n, want);
  const unsigned char *b = (const unsigned char *) m;
  for (int mode = 0; mode < 3; mode++)
    {
      lib_init (a, c);
      if (mode == 0) lib_update (a, c, b, n);
      else if (mode == 1) { size_t k = 1 + (size_t) (rnd () % 200); lib_update (a, c, b, k); lib_update (a, c, b + k, n - k); }
      else for (size_t pos = 0; pos < n; pos += (1u << 20)) lib_update (a, c, b + pos, n - pos < (1u << 20) ? n - pos : (1u << 20));
      memset (got, 0xEE, sizeof got);
      lib_final (a, c, got);
      n_cmp++;
      if (memcmp (want, got, dlen[a]))
        viol (aname[a], "digest mismatch for a message of %zu bytes (2^%d + %zu) %s", n, lg, n - ((size_t) 1 << lg),
              mode == 0 ? "passed in one call" : mode == 1 ? "passed as a short call and one huge call" : "passed in 1 MiB pieces");
    }
  if (a == A_SHA1 || a == A_SHA256)
    {
      unsigned char key[40];
      for (int i = 0; i < 40; i++) key[i] = (unsigned char) rnd ();
      /* the reference HMAC copies the message: inner digest by hand over two updates is not offered by the one-shot
         libgcrypt call, so use its incremental interface */
      gcry_md_hd_t h;
      if (!gcry_md_open (&h, galgo[a], GCRY_MD_FLAG_HMAC) && !gcry_md_setkey (h, key, sizeof key))
        {
          gcry_md_write (h, m, n);
          memcpy (want, gcry_md_read (h, 0), dlen[a]);
          gcry_md_close (h);
          if (a == A_SHA1) hmac_sha1_process_data (b, n, key, sizeof key, got);
          else HMAC_SHA256_Buf (key, sizeof key, b, n, got);
          n_cmp++;
          if (memcmp (want, got, dlen[a]))
            viol (a == A_SHA1 ? "hmac-sha1" : "hmac-sha256", "mismatch for a text of %zu bytes", n);
        }
    }
  printf ("CLS huge %s 2^%d\n", aname[a], lg);
  printf ("STAT {\"comparisons\": %ld, \"huge_messages\": 1}\n", n_cmp);
  free (cblk); free (m);
  return n_viol ? 1 : 0;
}

static ucontext_t ctx_main, ctx_co;
static void (*co_fn) (void);
static void co_entry (void) { co_fn (); }

static void
on_stack (void (*fn) (void))
{
  if (!pstack)
    pstack = mmap (0, PSTACK, PROT_READ | PROT_WRITE, MAP_PRIVATE | MAP_ANONYMOUS, -1, 0);
  memset (pstack, 0xA5, PSTACK);
  getcontext (&ctx_co);
  ctx_co.uc_stack.ss_sp = pstack;
  ctx_co.uc_stack.ss_size = PSTACK;
  ctx_co.uc_link = &ctx_main;
  co_fn = fn;
  makecontext (&ctx_co, co_entry, 0);
  swapcontext (&ctx_main, &ctx_co);
}

static unsigned char secret[200];
static size_t secret_len;

static int
window_match (const unsigned char *q)
{
  /* is q[0..8) an encoding of some 8-byte window of the secret? */
  for (size_t i = 0; i + 8 <= secret_len; i++)
    {
      const unsigned char *s = secret + i;
      int raw = 1, x36 = 1, x5c = 1, be32 = 1, be64 = 1, b36 = 1, b5c = 1;
      for (int k = 0; k < 8; k++)
        {
          unsigned char sw = s[(k & 4) | (3 - (k & 3))];
          if (q[k] != s[k]) raw = 0;
          if (q[k] != (s[k] ^ 0x36)) x36 = 0;
          if (q[k] != (s[k] ^ 0x5c)) x5c = 0;
          if (q[k] != sw) be32 = 0;
          if (q[k] != s[7 - k]) be64 = 0;
          if (q[k] != (sw ^ 0x36)) b36 = 0;
          if (q[k] != (sw ^ 0x5c)) b5c = 0;
        }
      if (raw || x36 || x5c || be32 || be64 || b36 || b5c) return 1;
    }
  return 0;
}

static long
scan_stack (void)
{
  long hits = 0;
  size_t i = 0;
  while (i < PSTACK && pstack[i] == 0xA5) i++;
  if (i > 64) i -= 64;
  for (; i + 8 <= PSTACK; i++)
    if (pstack[i] != 0xA5 && window_match (pstack + i)) hits++;
  return hits;
}

static int op_alg;
static unsigned char op_out[64];
static unsigned char kdf_out[256];
static void op_full (void) { lib_init (op_alg, &U); lib_update (op_alg, &U, secret, secret_len); lib_final (op_alg, &U, op_out); }
static void op_update (void) { lib_update (op_alg, &U, secret, secret_len); }
static void op_final (void) { lib_final (op_alg, &U, op_out); }
static void op_sha256buf (void) { SHA256_Buf (secret, secret_len, op_out); }
static void op_sha512buf (void) { SHA512_Buf (secret, secret_len, op_out); }
static void op_hmac1 (void) { hmac_sha1_process_data ((const uint8_t *) "text text text", 14, secret, secret_len, op_out); }
static void op_hmac1m (void) { hmac_sha1_process_data (secret, secret_len, (const uint8_t *) "key", 3, op_out); }
static void op_h256buf (void) { HMAC_SHA256_Buf (secret, secret_len, "message", 7, op_out); }
static void op_h256init (void) { HMAC_SHA256_Init (&U.h256, secret, secret_len); }
static void op_h256upd (void) { HMAC_SHA256_Update (&U.h256, secret, secret_len); }
static void op_h256fin (void) { HMAC_SHA256_Final (op_out, &U.h256); }
static void op_pbkdf2 (void) { PBKDF2_SHA256 (secret, secret_len, (const uint8_t *) "saltsalt", 8, 2, kdf_out, 64); }
static void op_pbkdf2f (void) { PBKDF2_SHA256 (secret, secret_len, (const uint8_t *) "saltsalt", 8, 1, kdf_out, 128); }
static void op_ghash (void) { gost_hash256 (secret, secret_len, op_out, &U.ghmac.ctx); }
static void op_ghmac (void) { gost_hmac256 (secret, secret_len > 64 ? 64 : secret_len, (const uint8_t *) "message", 7, op_out, &U.ghmac); }

static void
wipe_case (const char *name, void (*fn) (void), const void *ctx, size_t ctxlen)
{
  on_stack (fn);
  n_ops++; n_scan++;
  long h = scan_stack ();
  /* Informational only: the property's stack clause is about what remains
     when an API call returns, and SHA-512 / Streebog keep their message
     schedule in locals they never wipe (later frames overwrite it).  */
  if (h) { n_resid++; printf ("RESID %s\n", name); }
  if (ctx)
    {
      n_ctx++;
      if (!all_zero (ctx, ctxlen)) viol ("ctx-not-erased", "%s leaves a non-zero context", name);
    }
}

static int
cmd_wipe (int n)
{
  static const size_t lens[] = { 32, 40, 55, 56, 63, 64, 65, 100, 127, 128, 129, 199 };
  for (int it = 0; it < n; it++)
    {
      secret_len = lens[it % (int) (sizeof lens / sizeof lens[0])];
      for (size_t i = 0; i < secret_len; i++) { secret[i] = (unsigned char) rnd (); if (!secret[i]) secret[i] = 1; }
      char nm[64];
      for (int a = 0; a < A_N; a++)
        {
          op_alg = a;
          snprintf (nm, sizeof nm, "%s-init-update-final", aname[a]);
          wipe_case (nm, op_full, &U, ctx_size (a));
          lib_init (a, &U);
          snprintf (nm, sizeof nm, "%s-update", aname[a]);
          wipe_case (nm, op_update, 0, 0);
          snprintf (nm, sizeof nm, "%s-final", aname[a]);
          wipe_case (nm, op_final, &U, ctx_size (a));
        }
      wipe_case ("SHA256_Buf", op_sha256buf, 0, 0);
      wipe_case ("SHA512_Buf", op_sha512buf, 0, 0);
      wipe_case ("hmac_sha1(key)", op_hmac1, 0, 0);
      wipe_case ("hmac_sha1(text)", op_hmac1m, 0, 0);
      wipe_case ("HMAC_SHA256_Buf(key)", op_h256buf, 0, 0);
      wipe_case ("HMAC_SHA256_Init(key)", op_h256init, 0, 0);
      wipe_case ("HMAC_SHA256_Update", op_h256upd, 0, 0);
      wipe_case ("HMAC_SHA256_Final", op_h256fin, &U.h256, sizeof U.h256);
      wipe_case ("PBKDF2_SHA256(passwd)", op_pbkdf2, 0, 0);
      wipe_case ("PBKDF2_SHA256(passwd,fast)", op_pbkdf2f, 0, 0);
      wipe_case ("gost_hash256", op_ghash, 0, 0);
      wipe_case ("gost_hmac256(key)", op_ghmac, &U.ghmac, sizeof U.ghmac);
    }
  printf ("CLS wipe digests\nCLS wipe hmacs\nCLS wipe kdf\n");
  printf ("STAT {\"ops\": %ld, \"ctx_checks\": %ld, \"stack_scans\": %ld, \"stack_residue_ops\": %ld}\n", n_ops, n_ctx, n_scan, n_resid);
  return n_viol ? 1 : 0;
}

int
main (int argc, char **argv)
{
  if (argc < 3) return 2;
  if (!gcry_check_version (NULL)) return 2;
  gcry_control (GCRYCTL_DISABLE_SECMEM, 0);
  gcry_control (GCRYCTL_INITIALIZATION_FINISHED, 0);
  setvbuf (stdout, 0, _IOLBF, 0);
  if (self_test ()) { fprintf (stderr, "reference self-test failed\n"); return 2; }
  pool_bytes = malloc (POOL_N);
  if (!strcmp (argv[1], "cmp"))
    {
      rs = strtoull (argv[2 + (argc > 3)], 0, 0) * 0x9E3779B97F4A7C15ull + 1;
      for (int i = 0; i < POOL_N; i++) pool_bytes[i] = (unsigned char) rnd ();
      return cmd_cmp (!strcmp (argv[2], "thorough"));
    }
  if (!strcmp (argv[1], "huge") && argc >= 5)
    {
      /* huge <seed> <log2 size> <algorithm index> */
      rs = strtoull (argv[2], 0, 0) * 0x9E3779B97F4A7C15ull + 3;
      return cmd_huge (atoi (argv[3]), atoi (argv[4]));
    }
  if (!strcmp (argv[1], "wipe") && argc >= 4)
    {
      rs = strtoull (argv[2], 0, 0) * 0x9E3779B97F4A7C15ull + 7;
      return cmd_wipe (atoi (argv[3]));
    }
  return 2;
}
