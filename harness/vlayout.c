/* vlayout - prints the layout of struct crypt_data and the public constants of
   whichever <crypt.h> it is compiled against (DESIGN C20).  */
#include <crypt.h>
#include <stddef.h>
#include <stdio.h>
#define F(f) printf ("offset.%s %zu\nsize.%s %zu\n", #f, offsetof (struct crypt_data, f), #f, sizeof (((struct crypt_data *) 0)->f))
int
main (void)
{
  printf ("sizeof.crypt_data %zu\n", sizeof (struct crypt_data));
  F (output); F (setting); F (input); F (reserved); F (initialized); F (internal);
  printf ("CRYPT_OUTPUT_SIZE %d\n", CRYPT_OUTPUT_SIZE);
  printf ("CRYPT_MAX_PASSPHRASE_SIZE %d\n", CRYPT_MAX_PASSPHRASE_SIZE);
  printf ("CRYPT_GENSALT_OUTPUT_SIZE %d\n", CRYPT_GENSALT_OUTPUT_SIZE);
  printf ("CRYPT_DATA_RESERVED_SIZE %d\n", CRYPT_DATA_RESERVED_SIZE);
  printf ("CRYPT_DATA_INTERNAL_SIZE %d\n", CRYPT_DATA_INTERNAL_SIZE);
  printf ("CRYPT_SALT_OK %d\n", CRYPT_SALT_OK);
  printf ("CRYPT_SALT_INVALID %d\n", CRYPT_SALT_INVALID);
  printf ("CRYPT_SALT_METHOD_DISABLED %d\n", CRYPT_SALT_METHOD_DISABLED);
  printf ("CRYPT_SALT_METHOD_LEGACY %d\n", CRYPT_SALT_METHOD_LEGACY);
  printf ("CRYPT_SALT_TOO_CHEAP %d\n", CRYPT_SALT_TOO_CHEAP);
  printf ("CRYPT_GENSALT_IMPLEMENTS_DEFAULT_PREFIX %d\n", CRYPT_GENSALT_IMPLEMENTS_DEFAULT_PREFIX);
  printf ("CRYPT_GENSALT_IMPLEMENTS_AUTO_ENTROPY %d\n", CRYPT_GENSALT_IMPLEMENTS_AUTO_ENTROPY);
  printf ("CRYPT_CHECKSALT_AVAILABLE %d\n", CRYPT_CHECKSALT_AVAILABLE);
  printf ("CRYPT_PREFERRED_METHOD_AVAILABLE %d\n", CRYPT_PREFERRED_METHOD_AVAILABLE);
  return 0;
}
