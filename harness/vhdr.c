/* vhdr - a consumer of the GENERATED <crypt.h>, compiled with optimisation like any packaged program
   (DESIGN C18/C20): what the header tells the compiler about the functions (attributes such as const /
   pure / nonnull / leaf, macro values) takes effect in the caller's code, not in the library.  The
   classic consumer walks a shadow file with ONE line buffer; every answer must be for the buffer's
   current contents.  Output: "VIOL key detail" lines, "STAT {json}".  */
#include <crypt.h>
#include <stdio.h>
#include <stdlib.h>
#include <string.h>

static int n_viol, n_eval;
#define EXPECT(what, got, want) do { n_eval++; if ((got) != (want)) { n_viol++; \
  printf ("VIOL header-consumer/%s got %d want %d\n", what, (int) (got), (int) (want)); } } while (0)

static const struct { const char *s; int want; } T[] = {
  { "$y$j9T$abcdefgh", CRYPT_SALT_OK }, { "$@nonsense", CRYPT_SALT_INVALID }, { "$1$abcdefgh", CRYPT_SALT_METHOD_LEGACY },
  { "$6$saltsalt", CRYPT_SALT_OK }, { "", CRYPT_SALT_INVALID }, { "ab", CRYPT_SALT_METHOD_LEGACY },
  { "a:", CRYPT_SALT_INVALID }, { "$2b$05$abcdefghijklmnopqrstuu", CRYPT_SALT_OK }, { "*0", CRYPT_SALT_INVALID },
};
#define NT ((int) (sizeof T / sizeof T[0]))

/* all in one function, one buffer: the pattern an optimiser can fold if the header lies */
static void
one_buffer_unrolled (void)
{
  char line[64];
  strcpy (line, T[0].s); int r0 = crypt_checksalt (line);
  strcpy (line, T[1].s); int r1 = crypt_checksalt (line);
  strcpy (line, T[2].s); int r2 = crypt_checksalt (line);
  strcpy (line, T[3].s); int r3 = crypt_checksalt (line);
  strcpy (line, T[4].s); int r4 = crypt_checksalt (line);
  EXPECT ("checksalt-unrolled-0", r0, T[0].want); EXPECT ("checksalt-unrolled-1", r1, T[1].want);
  EXPECT ("checksalt-unrolled-2", r2, T[2].want); EXPECT ("checksalt-unrolled-3", r3, T[3].want);
  EXPECT ("checksalt-unrolled-4", r4, T[4].want);
}

static void
one_buffer_loop (void)
{
  char line[64];
  int got[NT];
  for (int i = 0; i < NT; i++)
    {
      strcpy (line, T[i].s);
      got[i] = crypt_checksalt (line);
    }
  for (int i = 0; i < NT; i++)
    EXPECT ("checksalt-loop", got[i], T[i].want);
}

/* the same pattern for the hashing calls: result buffers and argument buffers are reused */
static void
crypt_reuse (void)
{
  static struct crypt_data cd;
  char phrase[32], keep[2][128];
  strcpy (phrase, "first phrase");
  char *a = crypt_r (phrase, "$1$saltsalt", &cd);
  snprintf (keep[0], sizeof keep[0], "%s", a ? a : "");
  strcpy (phrase, "second one");
  char *b = crypt_r (phrase, "$1$saltsalt", &cd);
  snprintf (keep[1], sizeof keep[1], "%s", b ? b : "");
  n_eval++;
  if (!strcmp (keep[0], keep[1]) || keep[0][0] != '$' || keep[1][0] != '$')
    { n_viol++; printf ("VIOL header-consumer/crypt_r-reused-phrase-buffer %s %s\n", keep[0], keep[1]); }
  char out[CRYPT_GENSALT_OUTPUT_SIZE], rb[16];
  memset (rb, 1, sizeof rb);
  char *g1 = crypt_gensalt_rn ("$6$", 0, rb, sizeof rb, out, sizeof out);
  snprintf (keep[0], sizeof keep[0], "%s", g1 ? g1 : "");
  memset (rb, 2, sizeof rb);
  char *g2 = crypt_gensalt_rn ("$6$", 0, rb, sizeof rb, out, sizeof out);
  snprintf (keep[1], sizeof keep[1], "%s", g2 ? g2 : "");
  n_eval++;
  if (!strcmp (keep[0], keep[1]) || keep[0][0] != '$')
    { n_viol++; printf ("VIOL header-consumer/gensalt-reused-rbytes-buffer %s %s\n", keep[0], keep[1]); }
  const char *p1 = crypt_preferred_method (), *p2 = crypt_preferred_method ();
  n_eval++;
  if (!p1 || !p2 || strcmp (p1, p2) || crypt_checksalt (p1) != CRYPT_SALT_OK)
    { n_viol++; printf ("VIOL header-consumer/preferred-method -\n"); }
}

/* crypt_ra's result points INTO the caller's block: the same bytes are reachable through the result and through
   *data, in either order, and the compiler must be told nothing else (an allocation attribute on the
   declaration would let it forward loads across the other access).  crypt_gensalt_ra's result is the caller's
   to free and to modify.  */
static void
ra_alias (const char *setting)
{
  /* the result pointer is deliberately never passed to another function: what the compiler may assume about it
     then comes from the declaration of crypt_ra alone */
  void *data = 0;
  int size = 0;
  char *hash = crypt_ra ("correct horse", setting, &data, &size);
  n_eval++;
  if (!hash || !data || size <= 0)
    { n_viol++; printf ("VIOL header-consumer/crypt_ra-failed %s\n", setting); free (data); return; }
  n_eval++;
  if (!(hash >= (char *) data && hash < (char *) data + size))
    { n_viol++; printf ("VIOL header-consumer/crypt_ra-result-outside-block size %d\n", size); free (data); return; }
  struct crypt_data *cd = data;
  if (hash == cd->output)       /* crypt.h: the output member is where the result is */
    {
      char seen = cd->output[0];
      hash[0] = '#';
      char after = cd->output[0];
      n_eval++;
      if (seen != setting[0] || after != '#')
        { n_viol++; printf ("VIOL header-consumer/crypt_ra-store-through-result-not-seen-through-block %d %d\n", seen, after); }
      hash[0] = seen;
    }
  int matched = hash[0] == setting[0] && hash[1] == setting[1];
  memset (data, 0, (size_t) size);
  char h0 = hash[0], h1 = hash[1];
  n_eval++;
  if (!matched || h0 != 0 || h1 != 0)
    { n_viol++; printf ("VIOL header-consumer/crypt_ra-scrubbing-the-block-not-seen-through-result %d %d\n", h0, h1); }
  /* second call on the same block: the result is inside it again */
  char *h2 = crypt_ra ("correct horse", setting, &data, &size);
  n_eval++;
  if (!h2 || !(h2 >= (char *) data && h2 < (char *) data + size) || h2[0] != setting[0])
    { n_viol++; printf ("VIOL header-consumer/crypt_ra-second-call %s\n", setting); }
  free (data);
}

/* kept apart from the function above: what one function does with its pointers changes what the optimiser
   concludes about the others in the same function */
static void __attribute__ ((noinline))
gensalt_ra_use (const char *prefix)
{
  char rb[16];
  memset (rb, 7, sizeof rb);
  char *g = crypt_gensalt_ra (prefix, 0, rb, sizeof rb);
  n_eval++;
  if (!g || g[0] != '$')
    { n_viol++; printf ("VIOL header-consumer/gensalt_ra-failed -\n"); }
  else
    {
      /* the caller owns the string: it may be modified and is released with free */
      size_t n = strlen (g);
      g[n - 1] = '!';
      n_eval++;
      if (g[n - 1] != '!' || strlen (g) != n)
        { n_viol++; printf ("VIOL header-consumer/gensalt_ra-string-not-writable -\n"); }
    }
  free (g);
}

/* the smallest callers: one access pattern each */
static void __attribute__ ((noinline))
ra_store_then_read_block (const char *setting)
{
  void *data = 0;
  int size = 0;
  char *hash = crypt_ra ("pw", setting, &data, &size);
  if (!hash || !data) { free (data); return; }
  struct crypt_data *cd = data;
  char seen = cd->output[0];
  hash[0] = '#';
  n_eval++;
  if (hash == cd->output && (seen != setting[0] || cd->output[0] != '#'))
    { n_viol++; printf ("VIOL header-consumer/crypt_ra-store-through-result-not-seen-through-block(minimal) %d %d\n", seen, cd->output[0]); }
  free (data);
}

static void __attribute__ ((noinline))
ra_scrub_then_read_result (const char *setting)
{
  void *data = 0;
  int size = 0;
  char *hash = crypt_ra ("pw", setting, &data, &size);
  if (!hash || !data) { free (data); return; }
  int matched = hash[0] == setting[0] && hash[1] == setting[1];
  memset (data, 0, (size_t) size);
  n_eval++;
  if (!matched || hash[0] != 0 || hash[1] != 0)
    { n_viol++; printf ("VIOL header-consumer/crypt_ra-scrubbing-the-block-not-seen-through-result(minimal) %d %d\n", hash[0], hash[1]); }
  free (data);
}

int
main (void)
{
  ra_alias ("$1$saltsalt");
  ra_alias ("$6$saltsalt");
  ra_store_then_read_block ("$1$saltsalt");
  ra_scrub_then_read_result ("$5$saltsalt");
  gensalt_ra_use ("$1$");
  gensalt_ra_use ("$6$");
  one_buffer_unrolled ();
  one_buffer_loop ();
  crypt_reuse ();
  printf ("STAT {\"evaluations\": %d}\n", n_eval);
  return n_viol ? 1 : 0;
}
