/* vfuzz - coverage-guided fuzzing of the public API under ASan+UBSan (DESIGN C04,
   thorough tier).  libFuzzer entry point; linked with the library OBJECTS built
   by clang with -fsanitize=fuzzer-no-link,address,undefined and with
   -Wl,--wrap=mmap so that mutated yescrypt/scrypt parameters cannot map more
   than a few MiB.

   Input format: byte 0 = entry selector; then the setting (up to the first NUL),
   then the phrase (rest, NULs removed).  Monitors: exact-size heap copies of
   every argument (red zones), data object flush against the end of its block,
   canaries in the application-owned fields, NUL inside the output field,
   returned pointer, same answer on a differently filled object.  A violated
   monitor calls abort() so that libFuzzer keeps the input as an artifact.  */
#include <crypt.h>
#include <errno.h>
#include <stdint.h>
#include <stdio.h>
#include <stdlib.h>
#include <string.h>
#include <sys/mman.h>

void *__real_mmap (void *, size_t, int, int, int, off_t);
void *
__wrap_mmap (void *a, size_t len, int prot, int flags, int fd, off_t off)
{
  if (len > ((size_t) 6 << 20)) { errno = ENOMEM; return MAP_FAILED; }
  return __real_mmap (a, len, prot, flags, fd, off);
}

static const char a64[] = "./0123456789ABCDEFGHIJKLMNOPQRSTUVWXYZabcdefghijklmnopqrstuvwxyz";
static int
idx64 (int c)
{
  const char *p = c ? strchr (a64, c) : 0;
  return p ? (int) (p - a64) : -1;
}

/* conservative cost gate: 0 = do not execute this setting */
static int
cheap (const char *s)
{
  if (!strncmp (s, "$2", 2))
    return !(s[2] && s[3] && s[4] >= '0' && s[4] <= '9' && s[5] >= '0' && s[5] <= '9')
           || ((s[4] - '0') * 10 + (s[5] - '0')) <= 5;
  if (!strncmp (s, "$5$rounds=", 10) || !strncmp (s, "$6$rounds=", 10))
    return strtoul (s + 10, 0, 10) <= 1500;
  if (!strncmp (s, "$sha1$", 6))
    return s[6] != '-' && strtoul (s + 6, 0, 10) <= 400;
  if (!strncmp (s, "$md5", 4) && s[4] && !strncmp (s + 5, "rounds=", 7))
    return strtoul (s + 12, 0, 10) <= 200;
  if (s[0] == '_')
    {
      if (strlen (s) < 5) return 1;
      long c = 0;
      for (int i = 1; i < 5; i++) { int x = idx64 (s[i]); if (x < 0) return 1; c |= (long) x << ((i - 1) * 6); }
      return c <= 400;
    }
  if (!strncmp (s, "$7$", 3))
    {
      if (strlen (s) < 14) return 1;
      if (idx64 (s[3]) > 8) return 0;
      for (int i = 5; i < 9; i++) if (s[i] != '.') return 0;        /* r < 64 */
      for (int i = 10; i < 14; i++) if (s[i] != '.') return 0;      /* p < 64 */
      return idx64 (s[4]) <= 16 && idx64 (s[9]) <= 4;
    }
  if (!strncmp (s, "$y$", 3) || !strncmp (s, "$gy$", 4))
    {
      const char *p = s + (s[1] == 'y' ? 3 : 4), *e = strchr (p, '$');
      if (!e) return 1;
      if (e - p > 7) return 0;
      for (const char *q = p; q < e; q++)
        {
          int x = idx64 (*q);
          if (x < 0) return 1;
          if (x > 47 && q != p) return 0;     /* multi-character numbers: large N, r, p or t */
        }
      if (e - p >= 2 && idx64 (p[1]) > 7) return 0;                 /* N <= 2^8 */
      if (e - p >= 3 && idx64 (p[2]) > 8) return 0;                 /* r <= 9 */
      if (e - p >= 5 && idx64 (p[e - p - 1]) > 3) return 0;         /* small t / p */
      if (e - p >= 4 && idx64 (p[3]) > 3) return 0;
      return 1;
    }
  return 1;
}

static void
fill (unsigned char *p, size_t n, unsigned seed)
{
  for (size_t i = 0; i < n; i++) { seed = seed * 1103515245u + 12345u; p[i] = (unsigned char) (seed >> 16); if (!p[i]) p[i] = 0x5A; }
}

static void
die (const char *what, const char *setting)
{
  fprintf (stderr, "VFUZZ-MONITOR: %s (setting starts \"%.60s\")\n", what, setting);
  abort ();
}

static int
one_crypt (int entry, const char *phrase, const char *setting, unsigned seed, char *result /* 400 */)
{
  size_t sz = sizeof (struct crypt_data);
  unsigned align = seed & 15;
  unsigned char *blk = malloc (sz + align);
  struct crypt_data *cd = (struct crypt_data *) (blk + align);
  fill ((unsigned char *) cd, sz, seed);
  unsigned char can_s[sizeof cd->setting], can_i[sizeof cd->input];
  memcpy (can_s, cd->setting, sizeof can_s);
  memcpy (can_i, cd->input, sizeof can_i);
  char *r;
  errno = (seed & 16) ? 34 : 0;
  if (entry == 0) r = crypt_rn (phrase, setting, cd, (int) sz);
  else r = crypt_r (phrase, setting, cd);
  if (r && r != cd->output) die ("returned pointer is not data->output", setting);
  if (!memchr (cd->output, 0, sizeof cd->output)) die ("no NUL inside the output field", setting);
  if (memcmp (can_s, cd->setting, sizeof can_s) || memcmp (can_i, cd->input, sizeof can_i))
    die ("application-owned setting/input fields modified", setting);
  int ok = r && r[0] != '*';
  snprintf (result, 400, "%s", ok ? r : "");
  if (ok)
    for (const unsigned char *q = (const unsigned char *) r; *q; q++)
      if (*q <= 0x20 || *q >= 0x7f || strchr (":;*!\\", *q)) die ("unsafe character in a successful result", setting);
  /* scratch must be wiped whenever the request got past validation (a hash, or a method refusal) */
  free (blk);
  return ok;
}

int
LLVMFuzzerTestOneInput (const uint8_t *data, size_t size)
{
  if (size < 2 || size > 1200) return 0;
  int entry = data[0] & 3;
  const uint8_t *nul = memchr (data + 1, 0, size - 1);
  size_t sl = nul ? (size_t) (nul - (data + 1)) : size - 1;
  char *setting = malloc (sl + 1);              /* exact size: red zone right after the NUL */
  memcpy (setting, data + 1, sl);
  setting[sl] = 0;
  size_t pmax = nul ? size - 2 - sl : 0, pl = 0;
  char *phrase = malloc (pmax + 1);
  for (size_t i = 0; i < pmax; i++) if (nul[1 + i]) phrase[pl++] = (char) nul[1 + i];
  phrase[pl] = 0;
  char *p2 = malloc (pl + 1);
  memcpy (p2, phrase, pl + 1);
  free (phrase);
  phrase = p2;
  if (entry <= 1)
    {
      if (cheap (setting))
        {
          char r1[400], r2[400];
          int a = one_crypt (entry, phrase, setting, 0x1234u + (unsigned) size, r1);
          /* the second opinion and the round trip triple the cost: one input in four */
          if (data[0] & 0x0C) goto done;
          int b = one_crypt (entry, phrase, setting, 0x9876u + (unsigned) sl, r2);
          if (a != b || strcmp (r1, r2)) die ("result depends on the previous contents/alignment of the data object", setting);
          if (a)
            {
              /* round trip: the hash is accepted as a setting and reproduces itself */
              char r3[400];
              if (cheap (r1) && (!one_crypt (0, phrase, r1, 0x5555u, r3) || strcmp (r1, r3)))
                die ("crypt(P, H) != H", setting);
            }
        }
    }
  else if (entry == 2)
    {
      (void) crypt_checksalt (setting);
    }
  else
    {
      /* gensalt: prefix = setting, count and sizes from the phrase bytes */
      unsigned long count = pl > 0 ? (unsigned char) phrase[0] % 40 : 0;
      if (pl > 1 && (phrase[1] & 1)) count = (unsigned long) -1 >> ((unsigned char) phrase[1] % 60);
      int osz = pl > 2 ? (unsigned char) phrase[2] : 192;
      int nr = pl > 3 ? (unsigned char) phrase[3] % 80 : 16;
      if ((size_t) nr > pl) nr = (int) pl;
      char *rb = malloc ((size_t) nr);
      memcpy (rb, phrase, (size_t) nr);
      char *out = malloc ((size_t) osz);
      char *g = crypt_gensalt_rn (setting, count, rb, nr, out, osz);
      if (g && g != out) die ("gensalt returned a foreign pointer", setting);
      if (g && !memchr (out, 0, (size_t) osz)) die ("gensalt result not terminated inside the buffer", setting);
      if (g && crypt_checksalt (g) == CRYPT_SALT_INVALID) die ("generated setting is INVALID for crypt_checksalt", setting);
      free (rb); free (out);
    }
done:
  free (setting); free (phrase);
  return 0;
}
