/* vw - verification worker for libxcrypt (DESIGN §3.2, §3.3).

   A line-oriented server on stdin/stdout.  Every byte-string argument is hex
   ("-" = NULL pointer, "." = empty string).  Exactly one response line per
   command, flushed immediately, so that when the process dies the driver
   knows the first unanswered command was the one in flight.

   Linked with the library OBJECTS of the flavour under test (never an
   archive) and with -Wl,--wrap=malloc,realloc,free,mmap,munmap,arc4random_buf
   so that the library's own allocator/mapping/entropy requests pass through
   the ledger below.  With -DVW_SYS it is built against the released header
   and library instead (no wrappers): the released-binary oracle.  */

#include <crypt.h>
#include <ctype.h>
#include <locale.h>
#include <errno.h>
#include <limits.h>
#include <pthread.h>
#include <signal.h>
#include <stdarg.h>
#include <stdint.h>
#include <stdio.h>
#include <stdlib.h>
#include <string.h>
#include <sys/mman.h>
#include <time.h>
#include <ucontext.h>
#include <unistd.h>

#if defined(__has_feature)
# if __has_feature(memory_sanitizer)
#  define VW_MSAN 1
#  include <sanitizer/msan_interface.h>
# endif
# if __has_feature(address_sanitizer)
#  define VW_ASAN 1
# endif
#endif
#if defined(__SANITIZE_ADDRESS__)
# define VW_ASAN 1
#endif
#if defined(__SANITIZE_THREAD__)
# define VW_TSAN 1
#endif

#define CD_SIZE ((long) sizeof (struct crypt_data))

/* ------------------------------------------------------------------ */
/* small utilities                                                      */

static uint64_t prng_state = 0x9E3779B97F4A7C15ull;
static uint64_t
prng_next (uint64_t *s)
{
  uint64_t z = (*s += 0x9E3779B97F4A7C15ull);
  z = (z ^ (z >> 30)) * 0xBF58476D1CE4E5B9ull;
  z = (z ^ (z >> 27)) * 0x94D049BB133111EBull;
  return z ^ (z >> 31);
}

static void
fill_pattern (unsigned char *p, size_t n, char kind, uint64_t seed)
{
  size_t i;
  switch (kind)
    {
    case 'z': memset (p, 0, n); break;
    case 'f': memset (p, 0xFF, n); break;
    case 'r':
      {
        uint64_t s = seed ^ 0xA5A5A5A5DEADBEEFull;
        for (i = 0; i < n; i++)
          {
            unsigned char c = (unsigned char) prng_next (&s);
            p[i] = c;
          }
      }
      break;
    default: break; /* 'n': leave as allocated */
    }
}

static int
hexval (int c)
{
  if (c >= '0' && c <= '9') return c - '0';
  if (c >= 'a' && c <= 'f') return c - 'a' + 10;
  if (c >= 'A' && c <= 'F') return c - 'A' + 10;
  return -1;
}

/* Decode a hex token.  Returns length, -1 for NULL ("-").  *out is a
   freshly allocated buffer of exactly len bytes (plus nothing): the caller
   copies it into an exact-size block.  */
static long
hexdecode (const char *tok, unsigned char **out)
{
  *out = 0;
  if (!strcmp (tok, "-")) return -1;
  if (!strcmp (tok, ".")) { *out = malloc (1); return 0; }
  size_t n = strlen (tok) / 2, i;
  unsigned char *b = malloc (n ? n : 1);
  for (i = 0; i < n; i++)
    b[i] = (unsigned char) ((hexval (tok[2 * i]) << 4) | hexval (tok[2 * i + 1]));
  *out = b;
  return (long) n;
}

/* NUL-terminated copy in a block of exactly len+1 bytes.  */
static char *
exact_string (const unsigned char *b, long len)
{
  if (len < 0) return 0;
  char *s = malloc ((size_t) len + 1);
  memcpy (s, b, (size_t) len);
  s[len] = 0;
  return s;
}

/* The same, starting g_palign bytes into its block (malloc returns 16-aligned memory, so exact_string is
   always aligned): the string still ends flush against the end of the block.  *base receives what to free.  */
static int g_palign;
static char *
exact_string_at (const unsigned char *b, long len, void **base)
{
  *base = 0;
  if (len < 0) return 0;
  char *blk = malloc ((size_t) len + 1 + (size_t) g_palign);
  *base = blk;
  char *s = blk + g_palign;
  memcpy (s, b, (size_t) len);
  s[len] = 0;
  return s;
}

static char outbuf[1 << 20];
static size_t outpos;

static void
out_reset (void) { outpos = 0; }

static void
out_printf (const char *fmt, ...) __attribute__ ((format (printf, 1, 2)));
static void
out_printf (const char *fmt, ...)
{
  va_list ap;
  va_start (ap, fmt);
  int n = vsnprintf (outbuf + outpos, sizeof outbuf - outpos, fmt, ap);
  va_end (ap);
  if (n > 0) outpos += (size_t) n;
  if (outpos >= sizeof outbuf) outpos = sizeof outbuf - 1;
}

static void
out_hex (const char *key, const void *p, size_t n)
{
  static const char hx[] = "0123456789abcdef";
  const unsigned char *b = p;
  out_printf (" %s=", key);
  if (n == 0) { out_printf ("."); return; }
  if (outpos + 2 * n + 2 >= sizeof outbuf) { out_printf ("TOOLONG"); return; }
  for (size_t i = 0; i < n; i++)
    {
      outbuf[outpos++] = hx[b[i] >> 4];
      outbuf[outpos++] = hx[b[i] & 15];
    }
  outbuf[outpos] = 0;
}

static void
out_flush (void)
{
  outbuf[outpos++] = '\n';
  size_t off = 0;
  while (off < outpos)
    {
      ssize_t w = write (1, outbuf + off, outpos - off);
      if (w <= 0) _exit (3);
      off += (size_t) w;
    }
  outpos = 0;
}

static int
all_zero (const void *p, size_t n)
{
  const unsigned char *b = p;
  for (size_t i = 0; i < n; i++)
    if (b[i]) return 0;
  return 1;
}

/* ------------------------------------------------------------------ */
/* pass-phrase residue scanner (DESIGN C09)                            */

#define NEEDLE_HASH_BITS 15
static uint64_t needle_tab[1 << NEEDLE_HASH_BITS];
static unsigned char needle_used[1 << NEEDLE_HASH_BITS];
static size_t n_needles;
static unsigned char ucs_first6[12];
static int have_ucs;
static int scan_on;

static void
needle_clear (void)
{
  memset (needle_used, 0, sizeof needle_used);
  n_needles = 0;
  have_ucs = 0;
}

static void
needle_add (const unsigned char *w)
{
  uint64_t v;
  memcpy (&v, w, 8);
  /* windows made of one repeated byte (or of the stack poison) are too
     common to be evidence */
  int same = 1;
  for (int i = 1; i < 8; i++) if (w[i] != w[0]) same = 0;
  if (same) return;
  size_t h = (size_t) ((v * 0x9E3779B97F4A7C15ull) >> (64 - NEEDLE_HASH_BITS));
  for (;;)
    {
      if (!needle_used[h]) { needle_used[h] = 1; needle_tab[h] = v; n_needles++; return; }
      if (needle_tab[h] == v) return;
      h = (h + 1) & ((1u << NEEDLE_HASH_BITS) - 1);
    }
}

static int
needle_has (const unsigned char *w)
{
  uint64_t v;
  memcpy (&v, w, 8);
  size_t h = (size_t) ((v * 0x9E3779B97F4A7C15ull) >> (64 - NEEDLE_HASH_BITS));
  while (needle_used[h])
    {
      if (needle_tab[h] == v) return 1;
      h = (h + 1) & ((1u << NEEDLE_HASH_BITS) - 1);
    }
  return 0;
}

/* Build the needle set for phrase p[0..n): every 8-byte window in the
   encodings the algorithms use.  */
static unsigned char xneedle_buf[256];
static size_t xneedle_len;      /* key material derived from the phrase (HMAC's digest of an over-long key), one call */

static void needles_add_bytes (const unsigned char *p, size_t n);

static void
needles_for_phrase (const unsigned char *p, size_t n)
{
  needle_clear ();
  needles_add_bytes (p, n);
  /* derived keys: 20- and 32-byte pieces, each in all encodings */
  for (size_t o = 0; o + 20 <= xneedle_len; o += 32)
    needles_add_bytes (xneedle_buf + o, xneedle_len - o < 32 ? xneedle_len - o : 32);
}

static void
needles_add_bytes (const unsigned char *p, size_t n)
{
  if (n < 8) return;
  unsigned char w[8];
  for (size_t i = 0; i + 8 <= n; i++)
    {
      const unsigned char *q = p + i;
      needle_add (q);                                   /* raw */
      for (int k = 0; k < 8; k++) w[k] = (unsigned char) (q[k] << 1);
      needle_add (w);                                   /* DES key bytes */
      for (int k = 0; k < 8; k++) w[k] = q[k] ^ 0x36;
      needle_add (w);                                   /* HMAC ipad */
      for (int k = 0; k < 8; k++) w[k] = q[k] ^ 0x5c;
      needle_add (w);                                   /* HMAC opad */
      for (int k = 0; k < 8; k++) w[k] = q[(k & 4) | (3 - (k & 3))];
      needle_add (w);                                   /* be32 words */
      for (int k = 0; k < 8; k++) w[k] = q[7 - k];
      needle_add (w);                                   /* be64 word */
      for (int k = 0; k < 8; k++) w[k] = q[(k & 4) | (3 - (k & 3))] ^ 0x36;
      needle_add (w);                                   /* be32 of ipad */
      for (int k = 0; k < 8; k++) w[k] = q[(k & 4) | (3 - (k & 3))] ^ 0x5c;
      needle_add (w);                                   /* be32 of opad */
    }
  /* UCS-2LE: 4 characters = 8 bytes c0 00 c1 00 c2 00 c3 00 and the
     odd-aligned view 00 c0 00 c1 ... is covered by scanning every offset. */
  for (size_t i = 0; i + 4 <= n; i++)
    {
      for (int k = 0; k < 4; k++) { w[2 * k] = p[i + (size_t) k]; w[2 * k + 1] = 0; }
      needle_add (w);
    }
}

static long
scan_region (const unsigned char *b, size_t n, const unsigned char *skip0,
             size_t skiplen0, const unsigned char *skip1, size_t skiplen1)
{
  long hits = 0;
  if (!n_needles || n < 8) return 0;
  for (size_t i = 0; i + 8 <= n; i++)
    {
      const unsigned char *q = b + i;
      if (skip0 && q + 8 > skip0 && q < skip0 + skiplen0) continue;
      if (skip1 && q + 8 > skip1 && q < skip1 + skiplen1) continue;
      if (needle_has (q)) hits++;
    }
  return hits;
}

/* Scan the program's own static storage (.data/.bss: the library objects are linked in, so crypt()'s and
   crypt_gensalt()'s static objects and anything the library caches live here) for pass-phrase windows.
   Ranges of the harness that legitimately hold phrase-derived bytes are skipped.  Only in builds without
   ASan/MSan (red zones between globals must not be read).  */
#if !defined(__SANITIZE_ADDRESS__) && !defined(VW_MSAN) && !defined(__SANITIZE_THREAD__) && !defined(VW_SYS) && !defined(VW_SO)
# define VW_STATIC_SCAN 1
extern char __data_start[], _end[];
struct skiprange { const unsigned char *p; size_t n; };
static struct skiprange static_skips[12];
static int n_static_skips;
static void
static_skip (const void *p, size_t n)
{
  if (n_static_skips < 12) static_skips[n_static_skips++] = (struct skiprange) { p, n };
}
static void register_static_skips (void);
static long
scan_static (const void *skip, size_t skiplen)
{
  long hits = 0;
  if (!n_needles) return 0;
  int nsk = n_static_skips;
  if (skip && nsk < 12) static_skips[n_static_skips++] = (struct skiprange) { skip, skiplen };
  const unsigned char *b = (const unsigned char *) __data_start, *e = (const unsigned char *) _end;
  for (const unsigned char *q = b; q + 8 <= e; q++)
    {
      int skip = 0;
      for (int k = 0; k < n_static_skips; k++)
        if (q + 8 > static_skips[k].p && q < static_skips[k].p + static_skips[k].n)
          { q = static_skips[k].p + static_skips[k].n - 1; skip = 1; break; }
      if (skip) continue;
      if (needle_has (q)) hits++;
    }
  n_static_skips = nsk;
  return hits;
}
#endif

/* ------------------------------------------------------------------ */
/* ledger + interposition layer (DESIGN §3.3)                          */

static __thread int g_inlib;       /* set while an API call is running */
static int g_ledger_on;            /* single-threaded use only */
static size_t g_mapcap = (size_t) 256 << 20;

#define EV_MAX 4000
static char g_ev[EV_MAX];
static size_t g_evpos;
static int g_reqno;                /* request counter within this API call */
static int g_faults[8];
static int g_nfaults;
static long g_ledger_errs;
static long g_munmap_hits;

static __thread void *g_ent_buf;   /* where the library asked for entropy */
static __thread size_t g_ent_len;
static __thread int g_ent_calls;
static unsigned char g_ent_sub[256];
static size_t g_ent_sublen;

#if defined(VW_SYS) || defined(VW_SO)
# define VW_NOWRAP 1
#endif
#ifndef VW_NOWRAP

void *__real_malloc (size_t);
void *__real_realloc (void *, size_t);
void __real_free (void *);
void *__real_mmap (void *, size_t, int, int, int, off_t);
int __real_munmap (void *, size_t);
void __real_arc4random_buf (void *, size_t);

struct lent { void *p; size_t n; char kind; char owner; char live; char unmapfail; };
#define LED_MAX 4096
static struct lent led[LED_MAX];
static int nled;

static void
ev_add (const char *fmt, ...) __attribute__ ((format (printf, 1, 2)));
static void
ev_add (const char *fmt, ...)
{
  va_list ap;
  va_start (ap, fmt);
  if (g_evpos < EV_MAX - 64)
    {
      if (g_evpos) g_ev[g_evpos++] = ',';
      int n = vsnprintf (g_ev + g_evpos, EV_MAX - g_evpos, fmt, ap);
      if (n > 0) g_evpos += (size_t) n;
    }
  va_end (ap);
}

static struct lent *
led_find (void *p)
{
  for (int i = nled - 1; i >= 0; i--)
    if (led[i].p == p && led[i].live) return &led[i];
  return 0;
}

static void
led_add (void *p, size_t n, char kind, char owner)
{
  /* reuse dead slots */
  for (int i = 0; i < nled; i++)
    if (!led[i].live && !led[i].unmapfail)
      {
        led[i] = (struct lent) { p, n, kind, owner, 1, 0 };
        return;
      }
  if (nled < LED_MAX)
    led[nled++] = (struct lent) { p, n, kind, owner, 1, 0 };
}

static int
fault_now (void)
{
  g_reqno++;
  for (int i = 0; i < g_nfaults; i++)
    if (g_faults[i] == g_reqno) return 1;
  return 0;
}

void *
__wrap_malloc (size_t n)
{
  if (!g_ledger_on) return __real_malloc (n);
  if (g_inlib)
    {
      if (fault_now ()) { ev_add ("A%zu!", n); errno = ENOMEM; return 0; }
      void *p = __real_malloc (n);
      ev_add ("A%zu", n);
      if (p) led_add (p, n, 'h', 'L');
      return p;
    }
  return __real_malloc (n);
}

/* calloc, posix_memalign and aligned_alloc are not used by the library today; a change that starts
   to use one of them must not escape the ledger and the fault schedule */
void *__real_calloc (size_t, size_t);
void *
__wrap_calloc (size_t k, size_t m)
{
  if (!g_ledger_on || !g_inlib) return __real_calloc (k, m);
  size_t n = k * m;
  if (fault_now ()) { ev_add ("A%zu!", n); errno = ENOMEM; return 0; }
  void *p = __real_calloc (k, m);
  ev_add ("A%zu", n);
  if (p) led_add (p, n, 'h', 'L');
  return p;
}

int __real_posix_memalign (void **, size_t, size_t);
int
__wrap_posix_memalign (void **out, size_t al, size_t n)
{
  if (!g_ledger_on || !g_inlib) return __real_posix_memalign (out, al, n);
  if (fault_now ()) { ev_add ("A%zu!", n); return ENOMEM; }
  int r = __real_posix_memalign (out, al, n);
  ev_add ("A%zu", n);
  if (!r && *out) led_add (*out, n, 'h', 'L');
  return r;
}

void *__real_aligned_alloc (size_t, size_t);
void *
__wrap_aligned_alloc (size_t al, size_t n)
{
  if (!g_ledger_on || !g_inlib) return __real_aligned_alloc (al, n);
  if (fault_now ()) { ev_add ("A%zu!", n); errno = ENOMEM; return 0; }
  void *p = __real_aligned_alloc (al, n);
  ev_add ("A%zu", n);
  if (p) led_add (p, n, 'h', 'L');
  return p;
}

void *
__wrap_realloc (void *old, size_t n)
{
  if (!g_ledger_on) return __real_realloc (old, n);
  if (g_inlib)
    {
      struct lent *e = old ? led_find (old) : 0;
      char z = '-';
      if (old)
        {
          if (!e) { g_ledger_errs++; ev_add ("E:realloc-unknown"); z = '?'; }
          else z = all_zero (old, e->n) ? 'z' : 'n';
        }
      if (fault_now ()) { ev_add ("R%zu%c!", n, z); errno = ENOMEM; return 0; }
      void *p = __real_realloc (old, n);
      ev_add ("R%zu%c", n, z);
      if (p)
        {
          if (e) e->live = 0;
          led_add (p, n, 'h', 'L');
        }
      return p;
    }
  /* caller side */
  struct lent *e = old ? led_find (old) : 0;
  void *p = __real_realloc (old, n);
  if (p && e) { e->live = 0; led_add (p, n, 'h', 'C'); }
  return p;
}

void
__wrap_free (void *p)
{
  if (!g_ledger_on) { __real_free (p); return; }
  if (!p) return;
  struct lent *e = led_find (p);
  if (g_inlib)
    {
      ev_add ("F");
      if (!e) { g_ledger_errs++; ev_add ("E:free-unknown"); return; /* do not pass a bad pointer on */ }
      e->live = 0;
      __real_free (p);
      return;
    }
  if (e) e->live = 0;
  __real_free (p);
}

/* hugeok: behave like a host with reserved huge pages - a MAP_HUGETLB request succeeds (served by an ordinary
   mapping) and, as mmap(2) says, must later be unmapped with a length that is a multiple of the huge page size */
static int g_hugeok;
static void *g_huge_maps[16];
void *
__wrap_mmap (void *addr, size_t len, int prot, int flags, int fd, off_t off)
{
  if (!g_ledger_on || !g_inlib)
    {
      if (g_inlib && len > g_mapcap) { errno = ENOMEM; return MAP_FAILED; }
      return __real_mmap (addr, len, prot, flags, fd, off);
    }
  const char *h = "";
#ifdef MAP_HUGETLB
  if (flags & MAP_HUGETLB) h = "h";
#endif
  if (fault_now ()) { ev_add ("M%zu%s!", len, h); errno = ENOMEM; return MAP_FAILED; }
  if (len > g_mapcap) { ev_add ("M%zu%sX", len, h); errno = ENOMEM; return MAP_FAILED; }
  int emu = 0;
#ifdef MAP_HUGETLB
  if (g_hugeok && (flags & MAP_HUGETLB))
    {
      if (len % ((size_t) 2 << 20)) { ev_add ("M%zu%se", len, h); errno = EINVAL; return MAP_FAILED; }
      flags &= ~(MAP_HUGETLB | (int) (0x3fu << 26));
      emu = 1;
    }
#endif
  void *p = __real_mmap (addr, len, prot, flags, fd, off);
  if (p == MAP_FAILED) { ev_add ("M%zu%se", len, h); return p; }
  ev_add ("M%zu%s%s", len, h, emu ? "H" : "");
  led_add (p, len, 'm', 'L');
  if (emu)
    for (int i = 0; i < 16; i++) if (!g_huge_maps[i]) { g_huge_maps[i] = p; break; }
  return p;
}

static int g_munmap_fault_errno = EINVAL;     /* munmap(2) documents EINVAL and ENOMEM */

int
__wrap_munmap (void *addr, size_t len)
{
  if (!g_ledger_on || !g_inlib) return __real_munmap (addr, len);
  struct lent *e = led_find (addr);
  if (!e || e->kind != 'm' || e->n != len)
    { g_ledger_errs++; ev_add ("E:munmap-unknown"); }
  if (fault_now ())
    {
      ev_add ("U%zu!", len);
      if (e) { e->live = 0; e->unmapfail = 1; }
      errno = g_munmap_fault_errno;
      return -1;
    }
  for (int i = 0; i < 16; i++)
    if (g_huge_maps[i] == addr)
      {
        if (len % ((size_t) 2 << 20))
          {
            /* the kernel refuses this on a huge page mapping: the region stays mapped */
            ev_add ("U%zu!", len);
            errno = EINVAL;
            return -1;
          }
        g_huge_maps[i] = 0;
      }
  long hits = 0;
  if (scan_on && e)
    {
      hits = scan_region (addr, len, 0, 0, 0, 0);
      g_munmap_hits += hits;
    }
  ev_add ("U%zu%s", len, hits ? "p" : "");
  int r = __real_munmap (addr, len);
  if (e) e->live = 0;
  return r;
}

void
__wrap_arc4random_buf (void *buf, size_t n)
{
  if (!g_inlib) { __real_arc4random_buf (buf, n); return; }
  g_ent_buf = buf;
  g_ent_len = n;
  g_ent_calls++;
  if (g_ledger_on) ev_add ("G%zu", n);
  if (g_ent_sublen)
    {
      for (size_t i = 0; i < n; i++)
        ((unsigned char *) buf)[i] = g_ent_sub[i % g_ent_sublen];
    }
  else
    __real_arc4random_buf (buf, n);
  /* the C library's store into BUF is not instrumented: repeat it from
     instrumented code so that the race detector knows this thread wrote it */
  for (size_t i = 0; i < n; i++)
    ((volatile unsigned char *) buf)[i] = ((unsigned char *) buf)[i];
}

/* The C library's explicit_bzero is not instrumented: an erase that runs past the end of an object (or races
   with another thread) would escape the sanitizers.  Do the store from instrumented code first.  */
void __real_explicit_bzero (void *, size_t);
void
__wrap_explicit_bzero (void *p, size_t n)
{
  volatile unsigned char *q = p;
  for (size_t i = 0; i < n; i++)
    q[i] = 0;
  __real_explicit_bzero (p, n);
}

/* The other secure-erase primitives configure may find instead of explicit_bzero (C23 memset_explicit, Annex K /
   BSD memset_s, NetBSD explicit_memset): this C library has none of them, so builds configured for one get these
   conforming definitions.  */
void *memset_explicit (void *s, int c, size_t n);
void *
memset_explicit (void *s, int c, size_t n)
{
  volatile unsigned char *q = s;
  for (size_t i = 0; i < n; i++) q[i] = (unsigned char) c;
  return s;
}
int memset_s (void *s, size_t smax, int c, size_t n);
int
memset_s (void *s, size_t smax, int c, size_t n)
{
  volatile unsigned char *q = s;
  if (!s) return EINVAL;
  for (size_t i = 0; i < n && i < smax; i++) q[i] = (unsigned char) c;
  return n > smax ? EINVAL : 0;
}
void *explicit_memset (void *s, int c, size_t n);
void *
explicit_memset (void *s, int c, size_t n)
{
  return memset_explicit (s, c, n);
}

/* C library functions that POSIX marks MT-unsafe (they use or change process-wide state): a re-entrant libcrypt
   call that reaches one of them cannot be safe under concurrency whatever a finite schedule happened to show
   (and uninstrumented libc state is invisible to the race detector).  Reaching one from inside the library
   ends the worker with a message.  */
static void
mt_unsafe (const char *name)
{
  static const char msg[] = "MT-UNSAFE-LIBC-CALL from inside libcrypt: ";
  (void) !write (2, msg, sizeof msg - 1);
  (void) !write (2, name, strlen (name));
  (void) !write (2, "\n", 1);
  abort ();
}
char *__real_setlocale (int, const char *);
char *
__wrap_setlocale (int c, const char *l)
{
  if (g_inlib) mt_unsafe ("setlocale");
  return __real_setlocale (c, l);
}
char *__real_strtok (char *, const char *);
char *
__wrap_strtok (char *s, const char *d)
{
  if (g_inlib) mt_unsafe ("strtok");
  return __real_strtok (s, d);
}
char *__real_l64a (long);
char *
__wrap_l64a (long v)
{
  if (g_inlib) mt_unsafe ("l64a");
  return __real_l64a (v);
}
struct lconv *__real_localeconv (void);
struct lconv *
__wrap_localeconv (void)
{
  if (g_inlib) mt_unsafe ("localeconv");
  return __real_localeconv ();
}
int __real_rand (void);
int
__wrap_rand (void)
{
  if (g_inlib) mt_unsafe ("rand");
  return __real_rand ();
}

static void
led_counts (long *heap, long *maps)
{
  *heap = *maps = 0;
  for (int i = 0; i < nled; i++)
    if (led[i].live && led[i].owner == 'L')
      {
        if (led[i].kind == 'h') ++*heap; else ++*maps;
      }
}

#define REAL_MALLOC(n) __real_malloc (n)
#define REAL_FREE(p) __real_free (p)
#else /* VW_NOWRAP */
static struct lent { int dummy; } *led_find_dummy;
#define REAL_MALLOC(n) malloc (n)
#define REAL_FREE(p) free (p)
#endif

static void
call_begin (void)
{
  g_evpos = 0; g_ev[0] = 0; g_reqno = 0;
  g_ent_buf = 0; g_ent_len = 0; g_ent_calls = 0;
  g_munmap_hits = 0;
  g_inlib = 1;
}

static void
call_end (void)
{
  g_inlib = 0;
  g_nfaults = 0;
}

/* ------------------------------------------------------------------ */
/* private poisoned stack (DESIGN C09.2)                               */

#define PSTACK_SIZE ((size_t) 1 << 20)
static unsigned char *pstack;
static int stack_mode;
static ucontext_t ctx_main, ctx_co;
static void (*co_fn) (void);

static void
co_entry (void)
{
  co_fn ();
}

static void
run_maybe_on_stack (void (*fn) (void))
{
  if (!stack_mode) { fn (); return; }
  if (!pstack)
    {
      pstack = mmap (0, PSTACK_SIZE, PROT_READ | PROT_WRITE,
                     MAP_PRIVATE | MAP_ANONYMOUS, -1, 0);
      if (pstack == MAP_FAILED) { perror ("mmap pstack"); _exit (4); }
    }
  memset (pstack, 0xA5, PSTACK_SIZE);
  getcontext (&ctx_co);
  ctx_co.uc_stack.ss_sp = pstack;
  ctx_co.uc_stack.ss_size = PSTACK_SIZE;
  ctx_co.uc_link = &ctx_main;
  co_fn = fn;
  makecontext (&ctx_co, co_entry, 0);
  swapcontext (&ctx_main, &ctx_co);
}

static long
pstack_used (void)
{
  size_t i = 0;
  while (i < PSTACK_SIZE && pstack[i] == 0xA5) i++;
  return (long) (PSTACK_SIZE - i);
}

/* ------------------------------------------------------------------ */
/* object slots                                                        */

#define NSLOT 8
struct slot
{
  unsigned char *block;   /* malloc'd block (obj = block + align)      */
  unsigned char *obj;
  long size;              /* bytes available at obj                     */
  int is_ra;              /* block is a plain malloc pointer for crypt_ra */
  void *ra_ptr;           /* the caller's *data                          */
  int ra_size;            /* the caller's *size                          */
};
static struct slot slots[NSLOT];

static void
slot_release (struct slot *s)
{
  if (s->is_ra) { if (s->ra_ptr) free (s->ra_ptr); }
  else if (s->block) free (s->block);
  memset (s, 0, sizeof *s);
}

/* state of one crypt call passed to the trampoline */
static struct
{
  int entry;                  /* 0 crypt 1 crypt_r 2 crypt_rn 3 crypt_ra */
  const char *phrase, *setting;
  void *data; int size;
  void **ra_data; int *ra_size;
  char *ret; int err;
} cc;

/* <unistd.h> declares crypt() with __nonnull; the library documents EINVAL
   for NULL arguments, so call through a pointer that carries no attribute.  */
static char *(*volatile crypt_fp) (const char *, const char *) = crypt;
/* In the shared-library flavour the sanitizer runtime interposes crypt_r and
   runs strlen() on the arguments itself; bind the library's own definition by
   version (main) so that NULL arguments reach the code under test.  */
static char *(*volatile crypt_r_fp) (const char *, const char *, struct crypt_data *) = crypt_r;

static int g_pre_errno;      /* errno the caller has before the call; -1: whatever the previous API call left */
static int g_last_errno;

static void
do_crypt_call (void)
{
  errno = g_pre_errno >= 0 ? g_pre_errno : g_last_errno;
  switch (cc.entry)
    {
    case 0: cc.ret = crypt_fp (cc.phrase, cc.setting); break;
    case 1: cc.ret = crypt_r_fp (cc.phrase, cc.setting, cc.data); break;
    case 2: cc.ret = crypt_rn (cc.phrase, cc.setting, cc.data, cc.size); break;
    case 3: cc.ret = crypt_ra (cc.phrase, cc.setting, cc.ra_data, cc.ra_size); break;
    }
  cc.err = errno;
  g_last_errno = errno;
}

static struct
{
  int entry;                 /* 0 rn, 1 ra, 2 static */
  const char *prefix; unsigned long count; const char *rbytes; int nrbytes;
  char *out; int outsize;
  char *ret; int err;
} gc;

static void
do_gensalt_call (void)
{
  errno = g_pre_errno >= 0 ? g_pre_errno : g_last_errno;
  switch (gc.entry)
    {
    case 0: gc.ret = crypt_gensalt_rn (gc.prefix, gc.count, gc.rbytes, gc.nrbytes, gc.out, gc.outsize); break;
    case 1: gc.ret = crypt_gensalt_ra (gc.prefix, gc.count, gc.rbytes, gc.nrbytes); break;
    case 2: gc.ret = crypt_gensalt (gc.prefix, gc.count, gc.rbytes, gc.nrbytes); break;
    }
  gc.err = errno;
  g_last_errno = errno;
}

static uint64_t canary_nonce = 1;

static void
canary_fill (unsigned char *p, size_t n, uint64_t nonce)
{
  uint64_t s = nonce * 0x2545F4914F6CDD1Dull + 12345;
  for (size_t i = 0; i < n; i++)
    {
      unsigned char c = (unsigned char) prng_next (&s);
      p[i] = c ? c : 0x5A;     /* no NUL inside: strlen on it runs off into the next field */
    }
}

static int
canary_check (const unsigned char *p, size_t n, uint64_t nonce)
{
  uint64_t s = nonce * 0x2545F4914F6CDD1Dull + 12345;
  for (size_t i = 0; i < n; i++)
    {
      unsigned char c = (unsigned char) prng_next (&s);
      if (!c) c = 0x5A;
      if (p[i] != c) return 0;
    }
  return 1;
}

static unsigned char snap[sizeof (struct crypt_data)];

static void
cmd_crypt (int argc, char **argv)
{
  /* crypt <entry> <slot> <phrase> <setting> <sizearg> <argmode> */
  if (argc < 7) { out_printf ("err args"); return; }
  static const char *names[] = { "crypt", "crypt_r", "crypt_rn", "crypt_ra" };
  int entry = -1;
  for (int i = 0; i < 4; i++) if (!strcmp (argv[1], names[i])) entry = i;
  int si = atoi (argv[2]);
  if (entry < 0 || si < 0 || si >= NSLOT) { out_printf ("err entry/slot"); return; }
  struct slot *s = &slots[si];
  unsigned char *pb, *sb;
  long pl = hexdecode (argv[3], &pb);
  long sl = hexdecode (argv[4], &sb);
  void *phrase_base;
  char *phrase = exact_string_at (pb, pl, &phrase_base);
  char *setting = exact_string (sb, sl);
  char argmode = argv[6][0];
  struct crypt_data *cd = 0;
  long objsize = 0;

  if (entry == 1 || entry == 2)
    {
      if (!s->obj && !(entry == 2 && s->block)) { out_printf ("err no object in slot"); goto done; }
      cd = (struct crypt_data *) s->obj;
      objsize = s->size;
    }
  else if (entry == 3)
    {
      if (!s->is_ra) { out_printf ("err slot is not an ra slot"); goto done; }
    }
  int full = (cd && objsize >= CD_SIZE);
  uint64_t nonce = canary_nonce++;
  /* argmode: s = separate exact-size buffers; i = phrase and setting inside the object's own fields;
     p = only the phrase inside (data->input); g = only the setting inside (data->setting) */
  if (argmode != 's' && argmode != 'o' && !(full && pl >= 0 && sl >= 0 && pl < 512 && sl < 384))
    argmode = 's';
  /* n = the setting is stored in data->setting but NULL is passed; m = the phrase is stored in data->input but
     NULL is passed (a NULL argument must fail whatever the object's fields hold) */
  int null_set = (argmode == 'n'), null_phr = (argmode == 'm');
  /* k = the phrase is data->input AS THE PREVIOUS CALL LEFT IT (crypt.h invites applications to keep the phrase
     there; the library must not have touched it), the setting is a separate buffer */
  int keep_in = (argmode == 'k');
  int set_in = (argmode == 'i' || argmode == 'g' || null_set), phr_in = (argmode == 'i' || argmode == 'p' || null_phr || keep_in);
  if (full)
    {
      if (set_in) memcpy (cd->setting, setting, (size_t) sl + 1);
      else canary_fill ((unsigned char *) cd->setting, sizeof cd->setting, nonce);
      if (keep_in) ;
      else if (phr_in) memcpy (cd->input, phrase, (size_t) pl + 1);
      else canary_fill ((unsigned char *) cd->input, sizeof cd->input, nonce + 77);
#ifdef VW_MSAN
      __msan_unpoison (snap, sizeof snap);
      memcpy (snap, cd, sizeof snap);
      __msan_unpoison (snap, sizeof snap);
#else
      memcpy (snap, cd, sizeof snap);
#endif
    }
  static char *last_static_ret;
  unsigned char *alias_copy = 0;
  int aliased = 0;
  if (argmode == 'o' && entry == 0 && last_static_ret && strlen (last_static_ret) >= 8)
    {
      /* the phrase is the string the previous crypt() returned, passed by the very same pointer */
      aliased = 1;
      alias_copy = (unsigned char *) strdup (last_static_ret);
      if (scan_on) needles_for_phrase (alias_copy, strlen ((char *) alias_copy));
    }
  else if (scan_on && pl >= 0) needles_for_phrase (pb, (size_t) pl);
  else needle_clear ();          /* no phrase (NULL): needles of an earlier call must not be matched */

  cc.entry = entry;
  cc.phrase = null_phr ? 0 : aliased ? last_static_ret : phr_in ? cd->input : phrase;
  cc.setting = null_set ? 0 : set_in ? cd->setting : setting;
  cc.data = cd;
  cc.size = !strcmp (argv[5], "=") ? (int) objsize : atoi (argv[5]);
  cc.ra_data = &s->ra_ptr;
  cc.ra_size = &s->ra_size;
  void *ra_before = s->ra_ptr;

  call_begin ();
  run_maybe_on_stack (do_crypt_call);
  call_end ();

  out_printf ("ok");
  char *ret = cc.ret;
  const char *outfield = 0;
  long outmax = 0;
  if (entry == 0)
    {
      out_printf (" r=%c al=%d", ret ? 'S' : 'N', aliased);
      outfield = ret; outmax = 384;
      last_static_ret = ret;
    }
  else if (entry == 3)
    {
      struct crypt_data *p = s->ra_ptr;
      out_printf (" d=%d sz=%d", !s->ra_ptr ? 0 : (s->ra_ptr == ra_before ? 1 : 2), s->ra_size);
      if (!ret) out_printf (" r=N");
      else if (p && ret == p->output) out_printf (" r=O");
      else out_printf (" r=X%ld", p ? (long) (ret - (char *) p) : 0L);
      /* judge the object only when the block is known to hold one */
      if (p && s->ra_size >= CD_SIZE) { cd = p; full = 2; outfield = p->output; outmax = 384; }
    }
  else
    {
      if (!ret) out_printf (" r=N");
      else if (ret == cd->output) out_printf (" r=O");
      else out_printf (" r=X%ld", (long) (ret - (char *) cd));
      outfield = (char *) cd;
      outmax = objsize < 384 ? objsize : 384;
      if (entry == 2 && cc.size < outmax) outmax = cc.size < 0 ? 0 : cc.size;
    }
  out_printf (" e=%d", cc.err);
  if (outfield && outmax > 0)
    {
#ifdef VW_MSAN
      {
        size_t l0 = 0;
        /* first poisoned byte of the result string, before we look at it */
        intptr_t pz = __msan_test_shadow (outfield, (size_t) outmax);
        __msan_unpoison (outfield, (size_t) outmax);
        l0 = strnlen (outfield, (size_t) outmax);
        out_printf (" mu=%ld", (pz >= 0 && (size_t) pz <= l0) ? (long) pz : -1L);
      }
#endif
      size_t l = strnlen (outfield, (size_t) outmax);
      out_printf (" nul=%d", l < (size_t) outmax);
      out_hex ("o", outfield, l);
    }
  else
    out_printf (" nul=- o=-");
  if (full && cd)
    {
#ifdef VW_MSAN
      __msan_unpoison (cd, sizeof *cd);
#endif
      if (full == 1)
        out_printf (" can=%d",
                    (set_in ? !memcmp (cd->setting, setting, (size_t) sl + 1)
                            : canary_check ((unsigned char *) cd->setting, sizeof cd->setting, nonce))
                    && (phr_in ? !memcmp (cd->input, phrase, (size_t) pl + 1)
                               : canary_check ((unsigned char *) cd->input, sizeof cd->input, nonce + 77)));
      else
        out_printf (" can=-");
      if (full == 2)
        out_printf (" az=%d", all_zero ((char *) cd + sizeof cd->output, sizeof *cd - sizeof cd->output));
      out_printf (" iz=%d rz=%d init=%d", all_zero (cd->internal, sizeof cd->internal),
                  all_zero (cd->reserved, sizeof cd->reserved), (int) cd->initialized);
      if (full == 1)
        {
          struct crypt_data *sn = (struct crypt_data *) snap;
          out_printf (" iu=%d ru=%d nu=%d",
                      !memcmp (cd->internal, sn->internal, sizeof cd->internal),
                      !memcmp (cd->reserved, sn->reserved, sizeof cd->reserved),
                      cd->initialized == sn->initialized);
        }
      if (scan_on && pl >= 8)
        {
          long hits;
          if (phr_in)
            hits = scan_region ((unsigned char *) cd, sizeof *cd,
                                (unsigned char *) cd->input, sizeof cd->input, 0, 0);
          else
            hits = scan_region ((unsigned char *) cd, sizeof *cd, 0, 0, 0, 0);
          out_printf (" ps=%ld", hits);
        }
    }
  else
    out_printf (" can=- iz=- rz=- init=-");
  if (stack_mode)
    {
      long hits = (scan_on && pl >= 8) ? scan_region (pstack, PSTACK_SIZE, 0, 0, 0, 0) : -1;
      out_printf (" sk=%ld su=%ld", hits, pstack_used ());
    }
  if (scan_on) out_printf (" mh=%ld nn=%zu", g_munmap_hits, n_needles);
#ifdef VW_STATIC_SCAN
  if (scan_on && n_needles)
    {
      static int skips_done;
      if (!skips_done)
        {
          skips_done = 1;
          register_static_skips ();
        }
      /* the string crypt() just returned lives in its static object: when the phrase was that very string
         (aliased call) the output field is where it legitimately was */
      out_printf (" ss=%ld", scan_static (aliased ? ret : 0, 384));
    }
#endif
  free (alias_copy);
#ifndef VW_NOWRAP
  if (g_ledger_on)
    {
      long h, m;
      led_counts (&h, &m);
      out_printf (" ev=%s heap=%ld maps=%ld lerr=%ld", g_evpos ? g_ev : ".", h, m, g_ledger_errs);
      if (entry == 3 && s->ra_ptr)
        {
          struct lent *e = led_find (s->ra_ptr);
          out_printf (" blk=%ld", e ? (long) e->n : -1L);
        }
    }
#endif
done:
  free (pb); free (sb); free (phrase_base); free (setting);
}

static void
cmd_gensalt (int argc, char **argv)
{
  /* gensalt <entry> <prefix> <count> <rbytes> <nrbytes> <outsize> */
  if (argc < 7) { out_printf ("err args"); return; }
  int entry = !strcmp (argv[1], "rn") ? 0 : !strcmp (argv[1], "ra") ? 1 : !strcmp (argv[1], "st") ? 2 : -1;
  if (entry < 0) { out_printf ("err entry"); return; }
  unsigned char *pb, *rb;
  long pl = hexdecode (argv[2], &pb);
  char *prefix = exact_string (pb, pl);
  unsigned long count = strtoul (argv[3], 0, 0);
  long rl = hexdecode (argv[4], &rb);
  int nrbytes = atoi (argv[5]);
  int outsize = atoi (argv[6]);
  /* exact-size blocks: rbytes of max(nrbytes,0) bytes, out of max(outsize,0) */
  char *rbytes = 0;
  if (rl >= 0)
    {
      size_t n = nrbytes > 0 ? (size_t) nrbytes : 0;
      rbytes = malloc (n);
      if (n) { memset (rbytes, 0, n); memcpy (rbytes, rb, (size_t) rl < n ? (size_t) rl : n); }
    }
  char *out = 0;
  size_t on = outsize > 0 ? (size_t) outsize : 0;
  if (entry == 0) { out = malloc (on); if (on) memset (out, 0xEE, on); }

  gc.entry = entry; gc.prefix = prefix; gc.count = count; gc.rbytes = rbytes;
  gc.nrbytes = nrbytes; gc.out = out; gc.outsize = outsize;
  call_begin ();
  run_maybe_on_stack (do_gensalt_call);
  call_end ();

  out_printf ("ok");
  char *ret = gc.ret;
  if (entry == 0)
    {
      out_printf (" r=%s e=%d", !ret ? "N" : ret == out ? "O" : "X", gc.err);
      if (on)
        {
          size_t l = strnlen (out, on);
          out_printf (" nul=%d", l < on);
          out_hex ("o", out, l);
        }
      else
        out_printf (" nul=- o=-");
    }
  else
    {
      out_printf (" r=%s e=%d", !ret ? "N" : entry == 1 ? "A" : "S", gc.err);
      if (ret) { size_t l = strnlen (ret, 4096); out_printf (" nul=%d", l < 192); out_hex ("o", ret, l); }
      else out_printf (" nul=- o=-");
    }
  if (stack_mode)
    {
      /* the entropy buffer the library drew into is a dead frame on the
         private stack now: still mapped, nothing has run there since */
      long resid = -1;
      if (g_ent_buf && (unsigned char *) g_ent_buf >= pstack
          && (unsigned char *) g_ent_buf + g_ent_len <= pstack + PSTACK_SIZE)
        {
          resid = 0;
          for (size_t i = 0; i < g_ent_len; i++)
            if (((unsigned char *) g_ent_buf)[i]) resid++;
        }
      out_printf (" er=%ld su=%ld", resid, pstack_used ());
    }
  out_printf (" gc=%d gn=%zu", g_ent_calls, g_ent_len);
#ifndef VW_NOWRAP
  if (g_ledger_on)
    {
      long h, m;
      if (entry == 1 && ret)
        {
          struct lent *e = led_find (ret);
          out_printf (" blk=%ld own=%c", e ? (long) e->n : -1L, e ? e->owner : '?');
        }
      if (entry == 1 && ret) { free (ret); ret = 0; }
      led_counts (&h, &m);
      out_printf (" ev=%s heap=%ld maps=%ld lerr=%ld", g_evpos ? g_ev : ".", h, m, g_ledger_errs);
    }
#endif
  if (entry == 1 && ret) free (ret);
  free (pb); free (rb); free (prefix); free (rbytes); free (out);
}

/* ------------------------------------------------------------------ */
/* multi-threaded batch (DESIGN C08)                                   */

struct mtitem
{
  int kind;            /* 0 crypt, 1 gensalt */
  int mid;             /* method id for the overlap matrix */
  char *phrase, *setting;           /* crypt */
  char *prefix; unsigned long count; char *rbytes; int nrbytes;  /* gensalt */
  char *expect;        /* NULL: expected failure (or, for OS entropy, "any") */
  int os_entropy;
};
#define MT_MAXITEMS 512
static struct mtitem mtitems[MT_MAXITEMS];
#ifdef VW_STATIC_SCAN
static void
register_static_skips (void)
{
  static_skip (needle_tab, sizeof needle_tab);
  static_skip (needle_used, sizeof needle_used);
  static_skip (xneedle_buf, sizeof xneedle_buf);
  static_skip (ucs_first6, sizeof ucs_first6);
  static_skip (snap, sizeof snap);
  static_skip (mtitems, sizeof mtitems);
  static_skip (outbuf, sizeof outbuf);
  static_skip (g_ev, sizeof g_ev);
  static_skip (g_ent_sub, sizeof g_ent_sub);
}
#endif
static int n_mtitems;

struct mtlog { uint64_t t0, t1; int item; int ep; char *res; };
struct mtthread
{
  pthread_t th; int tid; int iters; uint64_t seed;
  struct mtlog *log; int nlog; long mism; long calls;
  char firstbad[256];
};
static pthread_barrier_t mt_barrier;
static int mt_static_api;   /* positive control: use the non-reentrant API */
static int mt_cold;         /* expectations are computed AFTER the threads ran (first use happens concurrently) */
static int mt_only_mid = -1;  /* restrict the run to the items of one method */

static uint64_t
now_ns (void)
{
  struct timespec ts;
  clock_gettime (CLOCK_MONOTONIC, &ts);
  return (uint64_t) ts.tv_sec * 1000000000ull + (uint64_t) ts.tv_nsec;
}

static int
cmp_strp (const void *a, const void *b)
{
  return strcmp (*(char *const *) a, *(char *const *) b);
}

static void *
mt_thread (void *arg)
{
  struct mtthread *t = arg;
  struct crypt_data *cd = malloc (sizeof *cd);
  memset (cd, 0, sizeof *cd);
  void *ra = 0; int rasz = 0;
  char gbuf[CRYPT_GENSALT_OUTPUT_SIZE];
  uint64_t s = t->seed;
  pthread_barrier_wait (&mt_barrier);
  for (int i = 0; i < t->iters; i++)
    {
      uint64_t r = prng_next (&s);
      int idx = (int) (r % (uint64_t) n_mtitems);
      if (mt_only_mid >= 0)
        {
          int k;
          for (k = 0; k < n_mtitems && (mtitems[idx].mid % 20) != mt_only_mid; k++)
            idx = (idx + 1) % n_mtitems;
          if (k == n_mtitems) break;
        }
      struct mtitem *it = &mtitems[idx];
      int ep = (int) ((r >> 32) % 3);
      /* control mode 2: only crypt_gensalt(), whose racing writes to its
         static buffer are bounded and cannot crash the process */
      if (mt_static_api == 2 && it->kind == 0) continue;
      char *res = 0;
      char *tofree = 0;
      g_inlib = 1;
      uint64_t t0 = now_ns ();
      if (it->kind == 0)
        {
          if (mt_static_api) res = crypt_fp (it->phrase, it->setting);
          else if (ep == 0) res = crypt_r (it->phrase, it->setting, cd);
          else if (ep == 1) res = crypt_rn (it->phrase, it->setting, cd, (int) sizeof *cd);
          else res = crypt_ra (it->phrase, it->setting, &ra, &rasz);
          if (res && res[0] == '*') res = 0;
        }
      else
        {
          if (mt_static_api) res = crypt_gensalt (it->prefix, it->count, it->rbytes, it->nrbytes);
          else if (ep == 0) res = tofree = crypt_gensalt_ra (it->prefix, it->count, it->rbytes, it->nrbytes);
          else res = crypt_gensalt_rn (it->prefix, it->count, it->rbytes, it->nrbytes, gbuf, (int) sizeof gbuf);
          if ((r >> 40) & 1)
            {
              /* the two stateless queries ride along */
              (void) crypt_checksalt (it->prefix);
              (void) crypt_preferred_method ();
            }
        }
      uint64_t t1 = now_ns ();
      g_inlib = 0;
      t->calls++;
      int bad;
      if (mt_cold)
        {
          /* judged after the threads have finished */
          if (t->nlog < t->iters)
            t->log[t->nlog++] = (struct mtlog) { t0, t1, idx, ep, res ? strdup (res) : 0 };
          free (tofree);
          continue;
        }
      if (it->os_entropy)
        bad = !res || (it->prefix && strncmp (res, it->prefix, strlen (it->prefix)));
      else if (!it->expect) bad = res != 0;
      else bad = !res || strcmp (res, it->expect);
      if (bad && !mt_static_api)
        {
          if (!t->mism)
            snprintf (t->firstbad, sizeof t->firstbad, "item=%d ep=%d got=%.100s", idx, ep, res ? res : "(null)");
          t->mism++;
        }
      /* salts drawn from the operating system are kept: judged for repeats after the threads have finished */
      if (t->nlog < t->iters)
        t->log[t->nlog++] = (struct mtlog) { t0, t1, idx, ep, (it->os_entropy && res && !mt_static_api) ? strdup (res) : 0 };
      free (tofree);
    }
  free (ra);
  free (cd);
  return 0;
}

static void
cmd_mtadd (int argc, char **argv)
{
  if (n_mtitems >= MT_MAXITEMS || argc < 5) { out_printf ("err mtadd"); return; }
  struct mtitem *it = &mtitems[n_mtitems];
  memset (it, 0, sizeof *it);
  unsigned char *a, *b;
  it->mid = atoi (argv[2]);
  if (argv[1][0] == 'c')
    {
      long al = hexdecode (argv[3], &a), bl = hexdecode (argv[4], &b);
      it->kind = 0;
      it->phrase = exact_string (a, al);
      it->setting = exact_string (b, bl);
      if (!mt_cold)
        {
          struct crypt_data *cd = calloc (1, sizeof *cd);
          char *r = crypt_rn (it->phrase, it->setting, cd, (int) sizeof *cd);
          it->expect = r ? strdup (r) : 0;
          free (cd);
        }
      free (a); free (b);
    }
  else
    {
      if (argc < 6) { out_printf ("err mtadd g"); return; }
      long al = hexdecode (argv[3], &a);
      it->kind = 1;
      it->prefix = exact_string (a, al);
      it->count = strtoul (argv[4], 0, 0);
      long bl = hexdecode (argv[5], &b);
      if (bl < 0) { it->rbytes = 0; it->nrbytes = 0; it->os_entropy = 1; }
      else { it->rbytes = malloc ((size_t) bl + 1); memcpy (it->rbytes, b, (size_t) bl); it->nrbytes = (int) bl; }
      if (!mt_cold)
        {
          char buf[CRYPT_GENSALT_OUTPUT_SIZE];
          char *r = crypt_gensalt_rn (it->prefix, it->count, it->rbytes, it->nrbytes, buf, (int) sizeof buf);
          it->expect = r ? strdup (r) : 0;
        }
      free (a); free (b);
    }
  n_mtitems++;
  out_printf ("ok n=%d", n_mtitems);
  if (it->expect) out_hex ("x", it->expect, strlen (it->expect)); else out_printf (" x=-");
}

static void
cmd_mt (int argc, char **argv)
{
  /* mt <threads> <iters> <seed> <static-api 0|1|2> [only-mid|-1] */
  if (argc < 5 || !n_mtitems) { out_printf ("err mt"); return; }
  int nt = atoi (argv[1]), iters = atoi (argv[2]);
  uint64_t seed = strtoull (argv[3], 0, 0);
  mt_static_api = atoi (argv[4]);
  mt_only_mid = argc >= 6 ? atoi (argv[5]) : -1;
  if (nt < 1 || nt > 64) { out_printf ("err threads"); return; }
  struct mtthread *th = calloc ((size_t) nt, sizeof *th);
  /* process-wide state the calls have no business changing: the locale */
  char *loc_before = strdup (setlocale (LC_ALL, 0) ? setlocale (LC_ALL, 0) : "?");
  pthread_barrier_init (&mt_barrier, 0, (unsigned) nt);
  for (int i = 0; i < nt; i++)
    {
      th[i].tid = i; th[i].iters = iters; th[i].seed = seed * 1000003ull + (uint64_t) i * 7919ull;
      th[i].log = calloc ((size_t) iters, sizeof (struct mtlog));
      pthread_create (&th[i].th, 0, mt_thread, &th[i]);
    }
  long mism = 0, calls = 0;
  for (int i = 0; i < nt; i++) pthread_join (th[i].th, 0);
  pthread_barrier_destroy (&mt_barrier);
  char first[256] = "";
  if (mt_cold)
    {
      /* now, single-threaded, compute what each call should have returned */
      for (int k = 0; k < n_mtitems; k++)
        {
          struct mtitem *it = &mtitems[k];
          if (it->kind == 0)
            {
              struct crypt_data *cd = calloc (1, sizeof *cd);
              char *r = crypt_rn (it->phrase, it->setting, cd, (int) sizeof *cd);
              it->expect = r ? strdup (r) : 0;
              free (cd);
            }
          else
            {
              char buf[CRYPT_GENSALT_OUTPUT_SIZE];
              char *r = crypt_gensalt_rn (it->prefix, it->count, it->rbytes, it->nrbytes, buf, (int) sizeof buf);
              it->expect = r ? strdup (r) : 0;
            }
        }
      for (int i = 0; i < nt; i++)
        for (int j = 0; j < th[i].nlog; j++)
          {
            struct mtlog *l = &th[i].log[j];
            struct mtitem *it = &mtitems[l->item];
            int bad;
            if (it->os_entropy) bad = !l->res || (it->prefix && strncmp (l->res, it->prefix, strlen (it->prefix)));
            else if (!it->expect) bad = l->res != 0;
            else bad = !l->res || strcmp (l->res, it->expect);
            if (bad)
              {
                if (!th[i].mism)
                  snprintf (th[i].firstbad, sizeof th[i].firstbad, "cold item=%d ep=%d got=%.100s", l->item, l->ep, l->res ? l->res : "(null)");
                th[i].mism++;
              }
            free (l->res);
          }
    }
  for (int i = 0; i < nt; i++)
    {
      if (th[i].mism && !first[0]) snprintf (first, sizeof first, "%s", th[i].firstbad);
      mism += th[i].mism; calls += th[i].calls;
    }
  /* salts from the operating system's generator: a call run alone returns fresh bytes, so two calls returning
     the same salt, or a salt that is one repeated character, is not "what it would return if run alone"
     (methods with fewer than 48 salt bits are left out: repeats are expected there) */
  long os_salts = 0, os_dups = 0, os_flat = 0;
  char osfirst[200] = "";
  if (!mt_cold)
    {
      size_t cap = 0;
      for (int i = 0; i < nt; i++) cap += (size_t) th[i].nlog;
      char **all = calloc (cap + 1, sizeof *all);
      for (int i = 0; i < nt; i++)
        for (int j = 0; j < th[i].nlog; j++)
          {
            struct mtlog *l = &th[i].log[j];
            if (!l->res) continue;
            const char *pre = mtitems[l->item].prefix;
            size_t pl = pre ? strlen (pre) : 0;
            if (pl >= 2 && pre[0] == '$' && strlen (l->res) >= pl + 8)
              {
                const char *tail = strrchr (l->res, '$');
                tail = (tail && tail[1]) ? tail + 1 : l->res + strlen (l->res) - 8;
                if (strlen (tail) >= 8 && strspn (tail, (char[]) { tail[0], 0 }) == strlen (tail))
                  {
                    os_flat++;
                    if (!osfirst[0]) snprintf (osfirst, sizeof osfirst, "flat salt %.150s", l->res);
                  }
                all[os_salts++] = l->res;
              }
            else free (l->res);
            l->res = 0;
          }
      qsort (all, (size_t) os_salts, sizeof *all, cmp_strp);
      for (long k = 1; k < os_salts; k++)
        if (!strcmp (all[k], all[k - 1]))
          {
            os_dups++;
            if (!osfirst[0]) snprintf (osfirst, sizeof osfirst, "same salt twice %.150s", all[k]);
          }
      for (long k = 0; k < os_salts; k++) free (all[k]);
      free (all);
      if ((os_dups || os_flat) && !first[0]) snprintf (first, sizeof first, "%s", osfirst);
    }
  /* measured concurrency: cross-thread call pairs whose intervals overlapped */
  long overlaps = 0;
  static unsigned char pairseen[64][64];
  memset (pairseen, 0, sizeof pairseen);
  long distinct_pairs = 0;
  for (int a = 0; a < nt; a++)
    for (int b = a + 1; b < nt; b++)
      {
        int j0 = 0;
        for (int i = 0; i < th[a].nlog; i++)
          {
            struct mtlog *x = &th[a].log[i];
            while (j0 < th[b].nlog && th[b].log[j0].t1 < x->t0) j0++;
            for (int j = j0; j < th[b].nlog && th[b].log[j].t0 <= x->t1; j++)
              {
                overlaps++;
                int ma = mtitems[x->item].mid & 63, mb = mtitems[th[b].log[j].item].mid & 63;
                if (!pairseen[ma][mb]) { pairseen[ma][mb] = pairseen[mb][ma] = 1; distinct_pairs++; }
              }
          }
      }
  const char *loc_after = setlocale (LC_ALL, 0);
  int loc_same = loc_after && !strcmp (loc_before, loc_after);
  out_printf ("ok calls=%ld mism=%ld overlaps=%ld mpairs=%ld ossalts=%ld osdups=%ld osflat=%ld loc=%d", calls, mism, overlaps, distinct_pairs, os_salts, os_dups, os_flat, loc_same);
  if (!loc_same) { out_hex ("locb", loc_before, strlen (loc_before)); out_hex ("loca", loc_after ? loc_after : "?", strlen (loc_after ? loc_after : "?")); }
  free (loc_before);
  if (first[0]) out_hex ("first", first, strlen (first));
  for (int i = 0; i < nt; i++) free (th[i].log);
  free (th);
}

/* ------------------------------------------------------------------ */

#ifdef VW_SO
#include <dlfcn.h>
/* compat-only symbols of the shared library, bound by version */
static void *
compat_sym (const char *name)
{
  static const char *vers[] = { "XCRYPT_2.0", "GLIBC_2.2.5", "GLIBC_2.0", "OW_CRYPT_1.0", 0 };
  for (int i = 0; vers[i]; i++)
    {
      void *p = dlvsym (RTLD_DEFAULT, name, vers[i]);
      if (p) return p;
    }
  return 0;
}

static void
cmd_compat (int argc, char **argv)
{
  /* compat setkey <hex64> | encrypt <hex64> <edflag> | setkey_r <slot> <hex64>
     | encrypt_r <slot> <hex64> <edflag> | fcrypt <phrase> <setting> */
  if (argc < 3) { out_printf ("err compat args"); return; }
  const char *fn = argv[1];
  unsigned char *b = 0, *b2 = 0;
  if (!strcmp (fn, "setkey"))
    {
      void (*f) (const char *) = compat_sym ("setkey");
      long l = hexdecode (argv[2], &b);
      if (!f || l != 64) { out_printf ("err setkey"); free (b); return; }
      errno = 0; f ((char *) b);
      out_printf ("ok e=%d", errno);
    }
  else if (!strcmp (fn, "encrypt") && argc >= 4)
    {
      void (*f) (char *, int) = compat_sym ("encrypt");
      long l = hexdecode (argv[2], &b);
      if (!f || l != 64) { out_printf ("err encrypt"); free (b); return; }
      char *blk = malloc (64); memcpy (blk, b, 64);
      errno = 0; f (blk, atoi (argv[3]));
      out_printf ("ok e=%d", errno); out_hex ("b", blk, 64);
      free (blk);
    }
  else if (!strcmp (fn, "setkey_r") && argc >= 4)
    {
      void (*f) (const char *, struct crypt_data *) = compat_sym ("setkey_r");
      int si = atoi (argv[2]);
      long l = hexdecode (argv[3], &b);
      if (!f || l != 64 || si < 0 || si >= NSLOT || slots[si].size < CD_SIZE) { out_printf ("err setkey_r"); free (b); return; }
      errno = 0; f ((char *) b, (struct crypt_data *) slots[si].obj);
      out_printf ("ok e=%d", errno);
    }
  else if (!strcmp (fn, "encrypt_r") && argc >= 5)
    {
      void (*f) (char *, int, struct crypt_data *) = compat_sym ("encrypt_r");
      int si = atoi (argv[2]);
      long l = hexdecode (argv[3], &b);
      if (!f || l != 64 || si < 0 || si >= NSLOT || slots[si].size < CD_SIZE) { out_printf ("err encrypt_r"); free (b); return; }
      char *blk = malloc (64); memcpy (blk, b, 64);
      errno = 0; f (blk, atoi (argv[4]), (struct crypt_data *) slots[si].obj);
      out_printf ("ok e=%d", errno); out_hex ("b", blk, 64);
      free (blk);
    }
  else if (argc >= 4)
    {
      /* two-string functions returning a string: fcrypt, xcrypt */
      char *(*f) (const char *, const char *) = compat_sym (fn);
      long l = hexdecode (argv[2], &b), l2 = hexdecode (argv[3], &b2);
      char *p = exact_string (b, l), *st = exact_string (b2, l2);
      if (!f) { out_printf ("err nosym"); }
      else
        {
          errno = 0;
          char *r = f (p, st);
          out_printf ("ok r=%c e=%d", r ? 'S' : 'N', errno);
          if (r) out_hex ("o", r, strnlen (r, 384)); else out_printf (" o=-");
        }
      free (p); free (st);
    }
  else
    out_printf ("err compat fn");
  free (b); free (b2);
}
#endif

static void
handle (char *line)
{
  char *argv[16];
  int argc = 0;
  for (char *t = strtok (line, " \n"); t && argc < 16; t = strtok (0, " \n"))
    argv[argc++] = t;
  if (!argc) { out_printf ("err empty"); return; }
  const char *c = argv[0];
  if (!strcmp (c, "crypt")) cmd_crypt (argc, argv);
  else if (!strcmp (c, "gensalt")) cmd_gensalt (argc, argv);
  else if (!strcmp (c, "obj") && argc >= 6)
    {
      /* obj <slot> <size> <align> <fill> <seed> */
      int si = atoi (argv[1]);
      long size = atol (argv[2]);
      int align = atoi (argv[3]) & 15;
      if (si < 0 || si >= NSLOT) { out_printf ("err slot"); return; }
      struct slot *s = &slots[si];
      slot_release (s);
      if (size < 0) size = 0;
      s->block = malloc ((size_t) size + (size_t) align);
      s->obj = s->block + align;
      s->size = size;
      fill_pattern (s->obj, (size_t) size, argv[4][0], strtoull (argv[5], 0, 0));
      out_printf ("ok");
    }
  else if (!strcmp (c, "fill") && argc >= 4)
    {
      int si = atoi (argv[1]);
      if (si < 0 || si >= NSLOT) { out_printf ("err slot"); return; }
      struct slot *s = &slots[si];
      if (s->is_ra && s->ra_ptr && s->ra_size > 0)
        fill_pattern (s->ra_ptr, (size_t) s->ra_size, argv[2][0], strtoull (argv[3], 0, 0));
      else if (s->obj)
        fill_pattern (s->obj, (size_t) s->size, argv[2][0], strtoull (argv[3], 0, 0));
      out_printf ("ok");
    }
  else if (!strcmp (c, "raobj") && argc >= 4)
    {
      /* raobj <slot> <blocksize|-1> <recorded size> : the caller's (*data,*size) */
      int si = atoi (argv[1]);
      long bs = atol (argv[2]);
      if (si < 0 || si >= NSLOT) { out_printf ("err slot"); return; }
      struct slot *s = &slots[si];
      slot_release (s);
      s->is_ra = 1;
      s->ra_size = atoi (argv[3]);
      if (bs >= 0)
        {
          s->ra_ptr = malloc ((size_t) bs);
          memset (s->ra_ptr, 0xC3, (size_t) bs);
#ifndef VW_NOWRAP
          if (g_ledger_on) led_add (s->ra_ptr, (size_t) bs, 'h', 'C');
#endif
        }
      out_printf ("ok");
    }
  else if (!strcmp (c, "rafree") && argc >= 2)
    {
      /* the caller's single free(*data) */
      int si = atoi (argv[1]);
      struct slot *s = &slots[si];
      int known = -1;
#ifndef VW_NOWRAP
      if (g_ledger_on && s->ra_ptr) known = led_find (s->ra_ptr) != 0;
#endif
      if (s->is_ra && s->ra_ptr && known != 0) free (s->ra_ptr);
      s->ra_ptr = 0; s->ra_size = 0;
#ifndef VW_NOWRAP
      long h = 0, m = 0;
      led_counts (&h, &m);
      out_printf ("ok known=%d heap=%ld maps=%ld lerr=%ld", known, h, m, g_ledger_errs);
#else
      out_printf ("ok");
#endif
    }
  else if (!strcmp (c, "checksalt") && argc >= 2)
    {
      unsigned char *b; long l = hexdecode (argv[1], &b);
      char *s = exact_string (b, l);
      g_inlib = 1;
      int v = crypt_checksalt (s);
      g_inlib = 0;
      out_printf ("ok v=%d", v);
      free (b); free (s);
    }
  else if (!strcmp (c, "preferred"))
    {
      const char *p = crypt_preferred_method ();
      out_printf ("ok");
      if (p) out_hex ("v", p, strlen (p)); else out_printf (" v=-");
    }
  else if (!strcmp (c, "ledger") && argc >= 2)
    {
      g_ledger_on = atoi (argv[1]);
#ifndef VW_NOWRAP
      /* a fresh ledger per history: forget what earlier histories left */
      for (int i = 0; i < nled; i++) led[i].live = led[i].unmapfail = 0;
      nled = 0;
      g_ledger_errs = 0;
#endif
      out_printf ("ok");
    }
  else if (!strcmp (c, "setlocale") && argc >= 2)
    {
      /* setlocale <name>: what login/su/passwd do before they hash (LOCPATH comes from the environment) */
      const char *r = setlocale (LC_ALL, argv[1]);
      out_printf ("ok set=%d graph_e9=%d alpha_e9=%d", r != 0, isgraph (0xe9) != 0, isalpha (0xe9) != 0);
    }
  else if (!strcmp (c, "munmaperrno") && argc >= 2)
    {
#ifndef VW_NOWRAP
      g_munmap_fault_errno = atoi (argv[1]);
#endif
      out_printf ("ok");
    }
  else if (!strcmp (c, "fault") && argc >= 2)
    {
      g_nfaults = 0;
      if (strcmp (argv[1], "-"))
        for (char *t = strtok (argv[1], ","); t && g_nfaults < 8; t = strtok (0, ","))
          g_faults[g_nfaults++] = atoi (t);
      out_printf ("ok n=%d", g_nfaults);
    }
  else if (!strcmp (c, "mapcap") && argc >= 2)
    {
      g_mapcap = (size_t) strtoull (argv[1], 0, 0);
      out_printf ("ok");
    }
  else if (!strcmp (c, "ent") && argc >= 2)
    {
      unsigned char *b; long l = hexdecode (argv[1], &b);
      g_ent_sublen = 0;
      if (l > 0) { g_ent_sublen = (size_t) l > sizeof g_ent_sub ? sizeof g_ent_sub : (size_t) l; memcpy (g_ent_sub, b, g_ent_sublen); }
      free (b);
      out_printf ("ok");
    }
  else if (!strcmp (c, "palign") && argc >= 2)
    {
      g_palign = atoi (argv[1]) & 15;
      out_printf ("ok");
    }
  else if (!strcmp (c, "hugeok") && argc >= 2)
    {
#ifndef VW_NOWRAP
      g_hugeok = atoi (argv[1]);
#endif
      out_printf ("ok");
    }
  else if (!strcmp (c, "preerrno") && argc >= 2)
    {
      g_pre_errno = atoi (argv[1]);
      out_printf ("ok");
    }
  else if (!strcmp (c, "scan") && argc >= 2)
    {
      scan_on = atoi (argv[1]);
      out_printf ("ok");
    }
  else if (!strcmp (c, "stack") && argc >= 2)
    {
      stack_mode = atoi (argv[1]);
      out_printf ("ok");
    }
  else if (!strcmp (c, "gscrypt") && argc >= 6)
    {
      /* gscrypt <prefix> <count> <rbytes> <nrbytes> <phrase>: the documented
         allowance crypt (phrase, crypt_gensalt (...)) without copying */
      unsigned char *pb, *rb, *ph;
      long pl = hexdecode (argv[1], &pb);
      char *prefix = exact_string (pb, pl);
      unsigned long count = strtoul (argv[2], 0, 0);
      long rl = hexdecode (argv[3], &rb);
      int nrbytes = atoi (argv[4]);
      long hl = hexdecode (argv[5], &ph);
      char *phrase = exact_string (ph, hl);
      char *rbytes = 0;
      if (rl >= 0) { rbytes = malloc (nrbytes > 0 ? (size_t) nrbytes : 0); if (nrbytes > 0) memcpy (rbytes, rb, (size_t) (rl < nrbytes ? rl : nrbytes)); }
      g_inlib = 1;
      errno = 0;
      char *g = crypt_gensalt (prefix, count, rbytes, nrbytes);
      char gcopy[256] = "";
      if (g) snprintf (gcopy, sizeof gcopy, "%s", g);
      char *h = g ? crypt_fp (phrase, g) : 0;
      int e = errno;
      char h1[400] = "";
      if (h) snprintf (h1, sizeof h1, "%s", h);
      /* crypt.h: the two functions use separate static buffers - the generated setting is still there after the
         hash was computed, and the same pointer can be used again (verification: crypt (phrase, setting) twice) */
      int kept = g ? !strcmp (g, gcopy) : -1;
      char *hh = g ? crypt_fp (phrase, g) : 0;
      int again = (h && hh) ? !strcmp (h1, hh) : (!h && !hh) ? 1 : 0;
      g_inlib = 0;
      out_printf ("ok r=%c e=%d kept=%d again=%d", h ? 'S' : 'N', e, kept, again);
      if (g) out_hex ("g", gcopy, strlen (gcopy)); else out_printf (" g=-");
      if (h) out_hex ("o", h1, strnlen (h1, 384)); else out_printf (" o=-");
      free (pb); free (rb); free (ph); free (prefix); free (phrase); free (rbytes);
    }
#ifdef VW_SO
  else if (!strcmp (c, "compat")) cmd_compat (argc, argv);
#endif
  else if (!strcmp (c, "mtcold") && argc >= 2)
    {
      mt_cold = atoi (argv[1]);
      out_printf ("ok");
    }
  else if (!strcmp (c, "xneedle") && argc >= 2)
    {
      /* xneedle <hex|-> : derived key material to look for after the following crypt calls (32-byte slots) */
      xneedle_len = 0;
      if (strcmp (argv[1], "-"))
        {
          unsigned char *b = 0;
          long n = hexdecode (argv[1], &b);
          if (b && n > 0 && (size_t) n <= sizeof xneedle_buf) { memcpy (xneedle_buf, b, (size_t) n); xneedle_len = (size_t) n; }
          free (b);
        }
      out_printf ("ok");
    }
  else if (!strcmp (c, "mtadd")) cmd_mtadd (argc, argv);
  else if (!strcmp (c, "mt")) cmd_mt (argc, argv);
  else if (!strcmp (c, "info"))
    {
      out_printf ("ok cd=%ld out=%d gen=%d ver=%s", CD_SIZE, CRYPT_OUTPUT_SIZE,
                  CRYPT_GENSALT_OUTPUT_SIZE, XCRYPT_VERSION_STR);
    }
  else
    out_printf ("err unknown command %s", c);
}

int
main (void)
{
  char *line = 0;
  size_t cap = 0;
  (void) prng_state;
  signal (SIGPIPE, SIG_DFL);
#ifdef VW_SO
  {
    void *p = dlvsym (RTLD_DEFAULT, "crypt", "XCRYPT_2.0");
    if (p) crypt_fp = (char *(*) (const char *, const char *)) p;
    p = dlvsym (RTLD_DEFAULT, "crypt_r", "XCRYPT_2.0");
    if (p) crypt_r_fp = (char *(*) (const char *, const char *, struct crypt_data *)) p;
  }
#endif
  while (getline (&line, &cap, stdin) > 0)
    {
      if (!strncmp (line, "quit", 4)) break;
      out_reset ();
      handle (line);
      out_flush ();
    }
  return 0;
}
