/* venum - exhaustive comparison of crypt_checksalt with an independent
   classifier (DESIGN C18).  The classifier is written from hashes.conf and
   crypt_checksalt.3: INVALID for NULL, empty, any byte outside 0x21..0x7e or one
   of ':;*!\'; otherwise the first matching tag of the enabled methods; OK for
   the strong ones, LEGACY for the others.

   venum <shard> <nshards> <len4: all|N> <seed> <enabled,methods,csv>
   Output: "VIOL hex got want", "STAT {json}".  */

#include <crypt.h>
#include <stdint.h>
#include <stdio.h>
#include <stdlib.h>
#include <string.h>

struct meth { const char *name; const char *tag; int strong; int enabled; };
static struct meth M[] = {
  { "yescrypt", "$y$", 1, 0 }, { "gost_yescrypt", "$gy$", 1, 0 }, { "scrypt", "$7$", 1, 0 },
  { "bcrypt", "$2b$", 1, 0 }, { "bcrypt_y", "$2y$", 1, 0 }, { "bcrypt_a", "$2a$", 1, 0 },
  { "bcrypt_x", "$2x$", 0, 0 }, { "sha512crypt", "$6$", 1, 0 }, { "sha256crypt", "$5$", 0, 0 },
  { "sha1crypt", "$sha1", 0, 0 }, { "sunmd5", "$md5", 0, 0 }, { "md5crypt", "$1$", 0, 0 },
  { "nt", "$3$", 0, 0 }, { "bsdicrypt", "_", 0, 0 }, { "bigcrypt", "", 0, 0 }, { "descrypt", "", 0, 0 },
};
#define NM ((int) (sizeof M / sizeof M[0]))

static int
is_des (unsigned char c)
{
  return (c >= 'a' && c <= 'z') || (c >= 'A' && c <= 'Z') || (c >= '0' && c <= '9') || c == '.' || c == '/';
}

static int
classify (const unsigned char *s, size_t n)
{
  if (!s || n == 0) return CRYPT_SALT_INVALID;
  for (size_t i = 0; i < n; i++)
    {
      unsigned char c = s[i];
      if (c <= 0x20 || c >= 0x7f || c == ':' || c == ';' || c == '*' || c == '!' || c == '\\')
        return CRYPT_SALT_INVALID;
    }
  for (int k = 0; k < NM; k++)
    {
      if (!M[k].enabled) continue;
      size_t tl = strlen (M[k].tag);
      if (tl)
        {
          if (n >= tl && !memcmp (s, M[k].tag, tl))
            return M[k].strong ? CRYPT_SALT_OK : CRYPT_SALT_METHOD_LEGACY;
        }
      else if (n >= 2 && is_des (s[0]) && is_des (s[1]))
        return CRYPT_SALT_METHOD_LEGACY;
    }
  return CRYPT_SALT_INVALID;
}

static long n_viol, n_eval, n_ok, n_legacy, n_invalid;

static void
check (const unsigned char *s, size_t n)
{
  int want = classify (s, n);
  int got = crypt_checksalt ((const char *) s);
  n_eval++;
  if (got == CRYPT_SALT_OK) n_ok++; else if (got == CRYPT_SALT_METHOD_LEGACY) n_legacy++; else n_invalid++;
  if (got != want)
    {
      if (++n_viol <= 25)
        {
          printf ("VIOL ");
          for (size_t i = 0; i < n; i++) printf ("%02x", s[i]);
          if (!n) printf (".");
          printf (" %d %d\n", got, want);
        }
    }
}

static uint64_t rs;
static uint64_t
rnd (void)
{
  uint64_t z = (rs += 0x9E3779B97F4A7C15ull);
  z = (z ^ (z >> 30)) * 0xBF58476D1CE4E5B9ull;
  z = (z ^ (z >> 27)) * 0x94D049BB133111EBull;
  return z ^ (z >> 31);
}

int
main (int argc, char **argv)
{
  if (argc < 6) return 2;
  int shard = atoi (argv[1]), nsh = atoi (argv[2]);
  int all4 = !strcmp (argv[3], "all");
  long n4 = all4 ? 0 : atol (argv[3]);
  rs = strtoull (argv[4], 0, 0) * 0x9E3779B97F4A7C15ull + (uint64_t) shard;
  char *list = strdup (argv[5]);
  for (char *t = strtok (list, ","); t; t = strtok (0, ","))
    for (int k = 0; k < NM; k++)
      if (!strcmp (t, M[k].name)) M[k].enabled = 1;
  unsigned char b[600];

  if (shard == 0)
    {
      n_eval++;
      if (crypt_checksalt (0) != CRYPT_SALT_INVALID) { n_viol++; printf ("VIOL NULL %d %d\n", crypt_checksalt (0), CRYPT_SALT_INVALID); }
      b[0] = 0; check (b, 0);
      /* the preferred method is the strongest enabled default-capable one, and checksalt says OK for it */
      const char *pm = crypt_preferred_method ();
      const char *want = M[0].enabled ? "$y$" : M[3].enabled ? "$2b$" : M[7].enabled ? "$6$" : 0;
      n_eval++;
      if ((pm == 0) != (want == 0) || (pm && strcmp (pm, want)) || (pm && crypt_checksalt (pm) != CRYPT_SALT_OK))
        {
          n_viol++;
          printf ("VIOL 505245464552524544 %d %d\n", pm ? crypt_checksalt (pm) : -1, want ? 0 : -1);
        }
    }
  /* every byte string of length 1..3 (bytes 1..255), sharded by first byte */
  for (int a = 1; a < 256; a++)
    {
      if (a % nsh != shard) continue;
      b[0] = (unsigned char) a; b[1] = 0; check (b, 1);
      for (int c = 1; c < 256; c++)
        {
          b[1] = (unsigned char) c; b[2] = 0; check (b, 2);
          for (int d = 1; d < 256; d++) { b[2] = (unsigned char) d; b[3] = 0; check (b, 3); }
        }
    }
  long l3 = n_eval;
  /* printable strings of length 4: all, or a sample */
  if (all4)
    {
      for (int a = 0x21; a < 0x7f; a++)
        {
          if (a % nsh != shard) continue;
          b[0] = (unsigned char) a; b[4] = 0;
          for (int c = 0x21; c < 0x7f; c++)
            for (int d = 0x21; d < 0x7f; d++)
              for (int e = 0x21; e < 0x7f; e++)
                { b[1] = (unsigned char) c; b[2] = (unsigned char) d; b[3] = (unsigned char) e; check (b, 4); }
        }
    }
  else
    for (long i = 0; i < n4; i++)
      {
        uint64_t r = rnd ();
        for (int k = 0; k < 4; k++) { b[k] = (unsigned char) (0x21 + (r % 94)); r /= 94; }
        b[4] = 0; check (b, 4);
      }
  long l4 = n_eval - l3;
  /* longer strings: random printable, random bytes, tag + tail (valid and invalid tails) */
  long nl = 200000 / nsh + 1;
  for (long i = 0; i < nl; i++)
    {
      uint64_t r = rnd ();
      size_t n = 5 + (size_t) (r % 200);
      int kind = (int) ((r >> 8) % 4);
      size_t off = 0;
      if (kind >= 2)
        {
          const char *t = M[(r >> 16) % NM].tag;
          off = strlen (t);
          memcpy (b, t, off);
          if (!off) { b[0] = (unsigned char) "./09AZaz"[(r >> 20) % 8]; b[1] = (unsigned char) "./09AZaz"[(r >> 24) % 8]; off = 2; }
        }
      for (size_t k = off; k < n; k++)
        {
          uint64_t q = rnd ();
          if (kind == 1 || (kind == 3 && (q & 0xff) < 4)) b[k] = (unsigned char) (1 + q % 255);
          else b[k] = (unsigned char) (0x21 + (q >> 8) % 94);
        }
      b[n] = 0;
      check (b, n);
    }
  printf ("STAT {\"evaluations\": %ld, \"len_le3\": %ld, \"len4\": %ld, \"longer\": %ld, \"ok\": %ld, \"legacy\": %ld, \"invalid\": %ld}\n",
          n_eval, l3, l4, n_eval - l3 - l4, n_ok, n_legacy, n_invalid);
  return n_viol ? 1 : 0;
}
