/* vdes - DES monitors (DESIGN C17).

   -DVDES_SO   (linked against the freshly built libcrypt.so.1, sanitizer
               flavour so-asan): the obsolete setkey/encrypt[_r] API bound by
               symbol version with dlvsym, compared with nettle DES in process.
   -DVDES_CORE (linked with the static asan objects): des_set_key /
               des_set_salt / des_crypt_block; salt 0 / count 1 against nettle,
               salted/iterated cases printed for the Python bit-level model.

   Output: "VIOL <what> <detail>", "CLS ...", "STAT {json}", "S key salt count in out". */

#include <errno.h>
#include <stdint.h>
#include <stdio.h>
#include <stdlib.h>
#include <string.h>

/* nettle's DES, declared by hand: <nettle/des.h> renames des_set_key etc. with
   macros that collide with the library's own internal names */
struct ref_des_ctx { uint32_t key[32]; };
extern int nettle_des_set_key (struct ref_des_ctx *, const uint8_t *);
extern void nettle_des_encrypt (const struct ref_des_ctx *, size_t, uint8_t *, const uint8_t *);
extern void nettle_des_decrypt (const struct ref_des_ctx *, size_t, uint8_t *, const uint8_t *);

static uint64_t rs;
static uint64_t
rnd (void)
{
  uint64_t z = (rs += 0x9E3779B97F4A7C15ull);
  z = (z ^ (z >> 30)) * 0xBF58476D1CE4E5B9ull;
  z = (z ^ (z >> 27)) * 0x94D049BB133111EBull;
  return z ^ (z >> 31);
}

static long n_viol, n_cmp;

static void
viol (const char *what, const char *fmt, ...) __attribute__ ((format (printf, 2, 3)));
#include <stdarg.h>
static void
viol (const char *what, const char *fmt, ...)
{
  va_list ap;
  if (++n_viol > 30) return;
  printf ("VIOL %s ", what);
  va_start (ap, fmt);
  vprintf (fmt, ap);
  va_end (ap);
  printf ("\n");
}

static void
ref_des (const unsigned char key[8], const unsigned char in[8], unsigned char out[8], int decrypt)
{
  struct ref_des_ctx c;
  nettle_des_set_key (&c, key);      /* parity and weak keys do not matter for the cipher itself */
  if (decrypt) nettle_des_decrypt (&c, 8, out, in);
  else nettle_des_encrypt (&c, 8, out, in);
}

static void
hex8 (char *dst, const unsigned char *b)
{
  for (int i = 0; i < 8; i++) sprintf (dst + 2 * i, "%02x", b[i]);
}

#ifdef VDES_SO
#include <crypt.h>
#include <dlfcn.h>

static void (*p_setkey) (const char *);
static void (*p_encrypt) (char *, int);
static void (*p_setkey_r) (const char *, struct crypt_data *);
static void (*p_encrypt_r) (char *, int, struct crypt_data *);

static void *
vsym (const char *name)
{
  static const char *vers[] = { "GLIBC_2.2.5", "XCRYPT_2.0", "GLIBC_2.0", 0 };
  for (int i = 0; vers[i]; i++)
    {
      void *p = dlvsym (RTLD_DEFAULT, name, vers[i]);
      if (p) return p;
    }
  return 0;
}

/* 64 "bit bytes": only bit 0 of each byte may count; junk in the other 7 */
static void
spread (char out[64], const unsigned char in[8], int junk)
{
  for (int i = 0; i < 8; i++)
    for (int j = 0; j < 8; j++)
      {
        unsigned char bit = (in[i] >> (7 - j)) & 1;
        out[i * 8 + j] = (char) (bit | (junk ? (unsigned char) (rnd () & 0xFE) : 0));
      }
}

static int
gather (unsigned char out[8], const char in[64])
{
  int clean = 1;
  for (int i = 0; i < 8; i++)
    {
      out[i] = 0;
      for (int j = 0; j < 8; j++)
        {
          unsigned char v = (unsigned char) in[i * 8 + j];
          if (v > 1) clean = 0;
          out[i] = (unsigned char) ((out[i] << 1) | (v & 1));
        }
    }
  return clean;
}

static struct crypt_data *cd_a, *cd_b, *cd_c;
static int offsets_seen[16], n_offsets;

static void
one_pair (const unsigned char key[8], const unsigned char blk[8], int junk, int interleave, const char *cls)
{
  char k64[64], b64[64], b64r[64];
  unsigned char want[8], got[8], back[8];
  char hk[17], hb[17];
  hex8 (hk, key); hex8 (hb, blk);
  ref_des (key, blk, want, 0);

  /* static variant */
  spread (k64, key, junk);
  spread (b64, blk, junk);
  p_setkey (k64);
  if (interleave)
    {
      /* crypt*, crypt_gensalt* between setkey and encrypt must not disturb the static key */
      char gs[CRYPT_GENSALT_OUTPUT_SIZE];
      (void) crypt ("interleaved phrase", (interleave & 1) ? "ab" : "_J9..rasm");
      (void) crypt_r ("another phrase", "$1$saltsalt", cd_c);
      (void) crypt_gensalt ("$2b$", 4, "0123456789abcdef", 16);
      (void) crypt_gensalt_rn ("", 0, "xy", 2, gs, (int) sizeof gs);
    }
  p_encrypt (b64, 0);
  n_cmp++;
  if (!gather (got, b64)) viol ("output-not-bits", "encrypt leaves bytes other than 0/1 key=%s block=%s", hk, hb);
  if (memcmp (got, want, 8))
    viol (interleave ? "static-key-disturbed" : "encrypt", "%s: setkey/encrypt differs from DES key=%s block=%s junk=%d", cls, hk, hb, junk);
  p_encrypt (b64, 1);
  gather (back, b64);
  if (memcmp (back, blk, 8)) viol ("decrypt", "%s: decrypt(encrypt(x)) != x key=%s block=%s", cls, hk, hb);

  /* re-entrant variant on its own object; must agree with the static one.  The object may be recycled
     memory: crypt.h asks callers to clear only 'initialized' (and 'reserved') before the first use.  */
  spread (k64, key, junk);
  spread (b64r, blk, junk);
  if (junk || interleave)
    {
      unsigned char *raw = (unsigned char *) cd_a;
      for (size_t q = 0; q < sizeof *cd_a; q++) raw[q] = (unsigned char) (rnd () | 1);
      cd_a->initialized = 0;
      memset (cd_a->reserved, 0, sizeof cd_a->reserved);
    }
  p_setkey_r (k64, cd_a);
  p_encrypt_r (b64r, 0, cd_a);
  n_cmp++;
  if (!gather (got, b64r)) viol ("output-not-bits", "encrypt_r leaves bytes other than 0/1 key=%s", hk);
  if (memcmp (got, want, 8)) viol ("encrypt_r", "%s: setkey_r/encrypt_r differs from DES key=%s block=%s", cls, hk, hb);
  p_encrypt_r (b64r, 1, cd_a);
  gather (back, b64r);
  if (memcmp (back, blk, 8)) viol ("decrypt_r", "%s: decrypt_r(encrypt_r(x)) != x key=%s block=%s", cls, hk, hb);

  /* the key vector and the block kept inside the object's own application fields (crypt.h invites
     applications to use input/setting): setkey_r must read the key before it touches the object */
  if ((blk[0] & 3) == 0)
    {
      spread (cd_b->input, key, 0);
      p_setkey_r (cd_b->input, cd_b);
      spread (cd_b->setting, blk, 0);
      p_encrypt_r (cd_b->setting, 0, cd_b);
      gather (got, cd_b->setting);
      n_cmp++;
      if (memcmp (got, want, 8))
        viol ("arguments-inside-object", "%s: setkey_r(data->input, data); encrypt_r(data->setting, 0, data) differs from DES key=%s block=%s", cls, hk, hb);
    }

  /* re-keying with the SAME key after the object was used for something else must key it again: crypt_r wipes
     the schedule, the caller may clear or overwrite the object */
  if (interleave || (key[1] & 7) == 0)
    {
      spread (k64, key, 0);
      p_setkey_r (k64, cd_a);
      switch ((key[2] ^ blk[3]) % 3)
        {
        case 0: (void) crypt_r ("a phrase", "$1$saltsalt", cd_a); break;
        case 1: memset (cd_a, 0, sizeof *cd_a); break;
        default:
          {
            unsigned char k3[8];
            char k3_64[64];
            for (int i = 0; i < 8; i++) k3[i] = (unsigned char) (key[i] ^ 0x5A);
            spread (k3_64, k3, 0);
            p_setkey_r (k3_64, cd_b);
            memcpy (cd_a, cd_b, sizeof *cd_a);
          }
        }
      p_setkey_r (k64, cd_a);
      spread (b64r, blk, 0);
      p_encrypt_r (b64r, 0, cd_a);
      gather (got, b64r);
      n_cmp++;
      if (memcmp (got, want, 8))
        viol ("rekey-history", "%s: setkey_r(K); <object reused>; setkey_r(K); encrypt_r differs from DES key=%s block=%s", cls, hk, hb);
      /* and the static pair across a crypt() call with the key set again afterwards */
      p_setkey (k64);
      (void) crypt ("x", "ab");
      p_setkey (k64);
      spread (b64, blk, 0);
      p_encrypt (b64, 0);
      gather (got, b64);
      if (memcmp (got, want, 8))
        viol ("rekey-history", "%s: setkey(K); crypt; setkey(K); encrypt differs from DES key=%s", cls, hk);
    }

  /* any non-zero edflag means decrypt (encrypt(3)): not only 1 */
  {
    static const int flags[] = { 2, -1, 256, -2147483647 - 1, 2147483647, 3 };
    int fl = flags[(key[0] ^ blk[7]) % 6];
    unsigned char cipher[8];
    spread (k64, key, 0);
    p_setkey_r (k64, cd_a);
    spread (b64r, want, 0);            /* the ciphertext */
    p_encrypt_r (b64r, fl, cd_a);
    gather (back, b64r);
    n_cmp++;
    if (memcmp (back, blk, 8)) viol ("edflag", "%s: encrypt_r with edflag %d does not decrypt key=%s", cls, fl, hk);
    p_setkey (k64);
    spread (b64, want, 0);
    p_encrypt (b64, fl);
    gather (cipher, b64);
    if (memcmp (cipher, blk, 8)) viol ("edflag", "%s: encrypt with edflag %d does not decrypt key=%s", cls, fl, hk);
  }

  /* parity bits of the key are ignored */
  unsigned char k2[8];
  for (int i = 0; i < 8; i++) k2[i] = key[i] ^ 1;
  spread (k64, k2, 0);
  spread (b64r, blk, 0);
  p_setkey_r (k64, cd_b);
  p_encrypt_r (b64r, 0, cd_b);
  gather (got, b64r);
  n_cmp++;
  if (memcmp (got, want, 8)) viol ("parity", "%s: flipping the key parity bits changes the result key=%s", cls, hk);
}

/* The static key is process state: a key set on one thread is the key a later
   encrypt on another thread uses (the threads are ordered by create/join, so
   there is no concurrency here - only a history spread over two threads).  */
#include <pthread.h>
struct xt { int op; char k64[64]; char b64[64]; };
static void *
xt_run (void *a)
{
  struct xt *x = a;
  if (x->op == 0) p_setkey (x->k64);
  else p_encrypt (x->b64, x->op == 2);
  return 0;
}

static void
cross_thread_pair (const unsigned char key[8], const unsigned char blk[8], int dir)
{
  struct xt x;
  unsigned char want[8], got[8];
  char hk[17], hb[17];
  pthread_t t;
  hex8 (hk, key); hex8 (hb, blk);
  ref_des (key, blk, want, 0);
  spread (x.k64, key, 0);
  spread (x.b64, blk, 0);
  if (dir == 0)
    {
      /* key set here, used on a worker */
      p_setkey (x.k64);
      x.op = 1;
      if (pthread_create (&t, 0, xt_run, &x)) return;
      pthread_join (t, 0);
    }
  else
    {
      /* key set on a worker that has exited, used here */
      x.op = 0;
      if (pthread_create (&t, 0, xt_run, &x)) return;
      pthread_join (t, 0);
      p_encrypt (x.b64, 0);
    }
  gather (got, x.b64);
  n_cmp++;
  if (memcmp (got, want, 8))
    viol ("static-key-not-process-wide", "%s: encrypt does not use the key of the preceding setkey key=%s block=%s",
          dir ? "setkey on a worker thread, encrypt on the main thread" : "setkey on the main thread, encrypt on a worker thread", hk, hb);
}

/* The re-entrant pair on distinct objects from several threads, as the FIRST DES calls of a process (whatever
   the library sets up lazily is set up then): one fresh child process per trial, threads released together.  */
#include <sys/wait.h>
#include <unistd.h>
struct cold { unsigned char key[8], blk[8], got[8]; struct crypt_data *cd; };
static volatile int cold_go;
static void *
cold_run (void *a)
{
  struct cold *c = a;
  char k64[64], b64[64];
  spread (k64, c->key, 0);
  spread (b64, c->blk, 0);
  while (!cold_go) ;
  p_setkey_r (k64, c->cd);
  p_encrypt_r (b64, 0, c->cd);
  gather (c->got, b64);
  return 0;
}

static long
cold_trials (int trials)
{
  long bad = 0;
  for (int t = 0; t < trials; t++)
    {
      struct cold c[4];
      for (int i = 0; i < 4; i++)
        {
          uint64_t a = rnd (), b = rnd ();
          memcpy (c[i].key, &a, 8); memcpy (c[i].blk, &b, 8);
        }
      fflush (stdout);
      pid_t pid = fork ();
      if (pid < 0) return bad;
      if (pid == 0)
        {
          pthread_t th[4];
          int wrong = 0;
          for (int i = 0; i < 4; i++) { c[i].cd = calloc (1, sizeof (struct crypt_data)); pthread_create (&th[i], 0, cold_run, &c[i]); }
          cold_go = 1;
          for (int i = 0; i < 4; i++) pthread_join (th[i], 0);
          for (int i = 0; i < 4; i++)
            {
              unsigned char want[8];
              ref_des (c[i].key, c[i].blk, want, 0);
              if (memcmp (want, c[i].got, 8)) wrong++;
            }
          _exit (wrong ? 1 : 0);
        }
      int st = 0;
      waitpid (pid, &st, 0);
      n_cmp += 4;
      if (!WIFEXITED (st) || WEXITSTATUS (st))
        {
          char hk[17], hb[17];
          hex8 (hk, c[0].key); hex8 (hb, c[0].blk);
          if (!bad)
            viol ("concurrent-first-use", "trial %d: 4 threads making the first setkey_r/encrypt_r calls of a process on their own "
                  "objects: a result differs from DES or the process died (status 0x%x); first key=%s block=%s", t, st, hk, hb);
          bad++;
        }
    }
  return bad;
}

static int
cmd_api (long n)
{
  p_setkey = vsym ("setkey"); p_encrypt = vsym ("encrypt");
  p_setkey_r = vsym ("setkey_r"); p_encrypt_r = vsym ("encrypt_r");
  if (!p_setkey || !p_encrypt || !p_setkey_r || !p_encrypt_r)
    { viol ("symbol-missing", "setkey/encrypt/setkey_r/encrypt_r not bound by dlvsym"); printf ("STAT {\"comparisons\": 0}\n"); return 1; }
  /* before this process has made any DES call itself */
  cold_trials (n >= 100000 ? 3000 : 400);
  printf ("CLS api concurrent-first-use\n");
  /* struct crypt_data has character members only: an object may sit at any address (inside a packed record, at
     an odd offset of a buffer).  The two re-entrant objects move through all 16 offsets during the run.  */
  unsigned char *raw_a = calloc (1, sizeof *cd_a + 16), *raw_b = calloc (1, sizeof *cd_b + 16);
  cd_a = (struct crypt_data *) raw_a; cd_b = (struct crypt_data *) raw_b; cd_c = calloc (1, sizeof *cd_c);
  unsigned char key[8], blk[8];
  /* all weight-1 and weight-63 keys x all weight-1 and weight-63 blocks */
  for (int kw = 0; kw < 128; kw++)
    for (int bw = 0; bw < 128; bw++)
      {
        memset (key, kw >= 64 ? 0xFF : 0, 8); memset (blk, bw >= 64 ? 0xFF : 0, 8);
        key[(kw & 63) >> 3] ^= (unsigned char) (0x80 >> (kw & 7));
        blk[(bw & 63) >> 3] ^= (unsigned char) (0x80 >> (bw & 7));
        one_pair (key, blk, 0, 0, "weight-1/63");
      }
  printf ("CLS api weight-1-63-grid\n");
  for (long i = 0; i < n; i++)
    {
      uint64_t a = rnd (), b = rnd ();
      memcpy (key, &a, 8); memcpy (blk, &b, 8);
      if (i % 37 == 0)
        {
          unsigned off = (unsigned) (i / 37) & 15;
          memset (raw_a, 0, sizeof *cd_a + 16); memset (raw_b, 0, sizeof *cd_b + 16);
          cd_a = (struct crypt_data *) (raw_a + off);
          cd_b = (struct crypt_data *) (raw_b + ((off * 7 + 3) & 15));
          if (!offsets_seen[off]) { offsets_seen[off] = 1; n_offsets++; }
        }
      one_pair (key, blk, (int) (i & 1), (i % 16) == 0 ? (int) (1 + (i & 16) / 16) : 0, "random");
    }
  for (long i = 0; i < 64; i++)
    {
      uint64_t a = rnd (), b = rnd ();
      memcpy (key, &a, 8); memcpy (blk, &b, 8);
      cross_thread_pair (key, blk, (int) (i & 1));
    }
  printf ("CLS api cross-thread-history\n");
  printf ("CLS api random\nCLS api interleaved\n");
  printf ("CLS api object-offsets-%d\n", n_offsets);
  printf ("STAT {\"comparisons\": %ld, \"grid_pairs\": 16384, \"random_pairs\": %ld, \"object_offsets\": %d}\n", n_cmp, n, n_offsets);
  return n_viol ? 1 : 0;
}
#endif

#ifdef VDES_CORE
#include "crypt-port.h"
#include "alg-des.h"

static int
cmd_core (long n, long nsalted)
{
  struct des_ctx ctx;
  unsigned char key[8], blk[8], want[8], got[8], back[8];
  char hk[17], hb[17], ho[17];
  for (long i = 0; i < n; i++)
    {
      uint64_t a = rnd (), b = rnd ();
      memcpy (key, &a, 8); memcpy (blk, &b, 8);
      des_set_key (&ctx, key);
      des_set_salt (&ctx, 0);
      des_crypt_block (&ctx, got, blk, 1, false);
      ref_des (key, blk, want, 0);
      n_cmp++;
      hex8 (hk, key); hex8 (hb, blk);
      if (memcmp (want, got, 8)) viol ("core-encrypt", "des_crypt_block(salt 0, count 1) differs from DES key=%s block=%s", hk, hb);
      des_crypt_block (&ctx, back, got, 1, true);
      if (memcmp (back, blk, 8)) viol ("core-decrypt", "decrypt(encrypt(x)) != x key=%s block=%s", hk, hb);
      /* count 0 behaves like count 1 */
      if ((i & 255) == 0)
        {
          des_crypt_block (&ctx, back, blk, 0, false);
          if (memcmp (back, want, 8)) viol ("core-count0", "count 0 is not treated as 1 key=%s", hk);
        }
    }
  printf ("CLS core unsalted\n");
  for (long i = 0; i < nsalted; i++)
    {
      uint64_t a = rnd (), b = rnd ();
      uint32_t salt = (uint32_t) (rnd () & 0xFFFFFF);
      unsigned cnt = (unsigned) (1 + rnd () % ((i % 10) ? 30 : 400));
      if ((i % 7) == 0) salt &= 0xFFF;
      memcpy (key, &a, 8); memcpy (blk, &b, 8);
      des_set_key (&ctx, key);
      des_set_salt (&ctx, salt);
      des_crypt_block (&ctx, got, blk, cnt, false);
      if ((i & 3) == 0)
        {
          /* key and salt are independent parts of the context: the order of loading them must not matter,
             and re-keying keeps the salt */
          struct des_ctx c2;
          unsigned char g2[8];
          memset (&c2, 0, sizeof c2);
          des_set_salt (&c2, salt);
          des_set_key (&c2, key);
          des_crypt_block (&c2, g2, blk, cnt, false);
          n_cmp++;
          hex8 (hk, key);
          if (memcmp (g2, got, 8)) viol ("core-salt-then-key", "des_set_salt before des_set_key gives another result than after it key=%s salt=%u", hk, salt);
        }
      hex8 (hk, key); hex8 (hb, blk); hex8 (ho, got);
      printf ("S %s %u %u %s %s\n", hk, salt, cnt, hb, ho);
    }
  printf ("CLS core salted\n");
  printf ("STAT {\"comparisons\": %ld, \"salted_cases\": %ld}\n", n_cmp, nsalted);
  return n_viol ? 1 : 0;
}
#endif

int
main (int argc, char **argv)
{
  if (argc < 4) return 2;
  setvbuf (stdout, 0, _IOFBF, 1 << 16);
  rs = strtoull (argv[2], 0, 0) * 0x9E3779B97F4A7C15ull + 3;
#ifdef VDES_SO
  if (!strcmp (argv[1], "api")) return cmd_api (atol (argv[3]));
#endif
#ifdef VDES_CORE
  if (!strcmp (argv[1], "core") && argc >= 5) return cmd_core (atol (argv[3]), atol (argv[4]));
#endif
  return 2;
}
