#!/bin/sh
# soak: every quick check with several VERIF_SEED values on the current tree; evidence goes to a scratch
# directory.  Prints only the runs that did not exit 0.  usage: tools/soak.sh <first-seed> <last-seed> [ids...]
cd "$(dirname "$0")/.." || exit 2
a=$1; b=$2; shift 2
ids="$*"; [ -z "$ids" ] && ids=$(python3 -c "import json;print(' '.join(c['property_id'] for c in json.load(open('MANIFEST.json'))['checks']))")
d=$(mktemp -d /var/tmp/soak-XXXXXX)
bad=0
for s in $(seq $a $b); do
  for id in $ids; do
    out=$(VERIF_SEED=$s VERIF_EVIDENCE_DIR=$d/ev VERIF_REPLAY_DIR=$d/rp ./vcheck run $id --tier quick 2>&1); r=$?
    if [ $r -ne 0 ]; then bad=$((bad+1)); echo "seed=$s $id exit=$r"; echo "$out" | grep -E "^(VIOLATION|HARNESS)" | cut -c1-300 | head -5; fi
  done
  echo "seed $s done"
done
rm -rf $d
echo "soak finished: $bad non-zero runs"
