#!/bin/sh
# usage: tools/mkmutant.sh <name> <file> <python-expr-old> <new>   (exact string replace, once)
name="$1"; file="$2"; old="$3"; new="$4"
cd /repo || exit 2
git diff --quiet || { echo "/repo dirty" >&2; exit 2; }
python3 - "$file" "$old" "$new" <<'PY' || { git checkout -- .; exit 2; }
import sys
p,old,new=sys.argv[1:4]
s=open(p).read()
if s.count(old)<1:
    sys.exit("pattern not found in "+p)
open(p,'w').write(s.replace(old,new,1))
PY
git diff > /verif/mutants/"$name".diff
git checkout -- .
echo "wrote mutants/$name.diff"
