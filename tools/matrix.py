#!/usr/bin/python3
"""Development tool: run checks against changes WITHOUT touching /repo.
Each change is applied to a scratch copy of /repo's working tree (under
/var/tmp), the checks run with VERIF_REPO pointing at the copy and their
evidence/replays redirected to a scratch directory; copies are removed
afterwards.   usage: tools/matrix.py [--all-checks] [--jobs N] [name-filter ...]"""
import concurrent.futures, json, os, re, shutil, subprocess, sys, tempfile
HERE = os.path.dirname(os.path.dirname(os.path.abspath(__file__)))
sys.path.insert(0, HERE)
ALL = ["C%02d" % i for i in range(1, 21)]
EXTRA = {
    "revert-F1-sha1-salt": ["C04", "C06"], "revert-F2-gensalt-sha-abort": ["C13"],
    "revert-F3-gensalt-sha-nr3": ["C12"], "revert-F5-neg-nrbytes": ["C04", "C13"],
    "revert-F6-des-shift": ["C04"], "revert-F7-scrypt-rehash": ["C01"], "c10-bcrypt-15": ["C12"],
    "c07-ra-no-token": ["C07", "C05"], "revert-F8-bigcrypt-gensalt-token": ["C13"], "revert-F9-sha1-signed-count": ["C05"], "revert-F11-md45-length-high-word": ["C16"],
}
def changes():
    out = []
    for f in sorted(os.listdir(os.path.join(HERE, "mutants"))):
        if f.endswith(".diff"):
            n = f[:-5]
            m = re.match(r"c(\d\d)-", n)
            out.append((n, os.path.join(HERE, "mutants", f), EXTRA.get(n) or (["C" + m.group(1)] if m else [])))
    sd = os.path.join(HERE, "seeded")
    for d in sorted(x for x in os.listdir(sd) if os.path.isdir(os.path.join(sd, x))) if os.path.isdir(sd) else []:
        meta = json.load(open(os.path.join(sd, d, "meta.json")))
        out.append(("seeded/" + d, os.path.join(sd, d, "patch.diff"), meta.get("checks_expected") or [meta["property"]]))
    return out
def run_change(args):
    name, patch, checks = args
    work = tempfile.mkdtemp(prefix="mutrepo-", dir="/var/tmp")
    repo = os.path.join(work, "repo")
    try:
        subprocess.run(["rsync", "-a", "--exclude=.git", "--exclude=.libs", "--exclude=*.o", "--exclude=*.lo",
                        "--exclude=test/*", "--exclude=autom4te.cache", "/repo/", repo + "/"], check=True)
        p = subprocess.run(["git", "apply", "--directory=" + os.path.relpath(repo, "/"), patch], cwd="/",
                           stdout=subprocess.PIPE, stderr=subprocess.STDOUT, text=True)
        if p.returncode:
            p = subprocess.run(["patch", "-p1", "-s", "-i", patch], cwd=repo, stdout=subprocess.PIPE, stderr=subprocess.STDOUT, text=True)
            if p.returncode:
                return name, {c: "PATCH-FAILED" for c in checks}
        res = {}
        env = dict(os.environ, VERIF_REPO=repo, VERIF_EVIDENCE_DIR=os.path.join(work, "ev"),
                   VERIF_REPLAY_DIR=os.path.join(work, "rp"))
        for c in checks:
            q = subprocess.run([os.path.join(HERE, "vcheck"), "run", c, "--tier", "quick"], cwd=HERE, env=env,
                               stdout=subprocess.PIPE, stderr=subprocess.STDOUT, text=True)
            keys = re.findall(r"key=(\S+)", q.stdout)
            res[c] = ("caught " + (keys[0] if keys else "")) if q.returncode == 1 else ("-" if q.returncode == 0 else "exit%d" % q.returncode)
        return name, res
    finally:
        shutil.rmtree(work, ignore_errors=True)
def main():
    args = sys.argv[1:]
    allc = "--all-checks" in args
    jobs = 3
    if "--jobs" in args:
        jobs = int(args[args.index("--jobs") + 1]); del args[args.index("--jobs"):args.index("--jobs") + 2]
    filt = [a for a in args if not a.startswith("--")]
    work = [(n, p, ALL if allc else c) for n, p, c in changes() if not filt or any(f in n for f in filt)]
    if os.environ.get("MATRIX_SKIP"):
        # resume: leave out the changes an earlier (interrupted) run already reported
        with open(os.environ["MATRIX_SKIP"]) as f:
            done = set(ln.split()[0] for ln in f if " caught by: " in ln and "exit2" not in ln)
        work = [w for w in work if w[0] not in done]
    with concurrent.futures.ThreadPoolExecutor(max_workers=jobs) as ex:
        for name, res in ex.map(run_change, work):
            caught = [c for c, v in res.items() if v.startswith("caught")]
            print("%-34s caught by: %-40s %s" % (name, ",".join(caught) or "NONE",
                  " ".join("%s=%s" % (c, v) for c, v in res.items() if not v.startswith("caught") and v != "-")), flush=True)
            if not allc:
                for c, v in res.items():
                    print("      %s: %s" % (c, v), flush=True)
if __name__ == "__main__":
    main()
