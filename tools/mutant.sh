#!/bin/sh
# usage: tools/mutant.sh <patch.diff> <check-id>... : apply the patch to /repo,
# run the quick checks, undo the patch.  Development tool (DESIGN §7).
patch=$(readlink -f "$1"); shift
cd /repo || exit 2
if ! git diff --quiet; then echo "/repo has uncommitted changes" >&2; exit 2; fi
trap 'git -C /repo checkout -- . ' EXIT INT TERM
git apply "$patch" || exit 2
cd /verif
rc=0
for id in "$@"; do
  out=$(./vcheck run "$id" --tier "${TIER:-quick}" 2>&1); r=$?
  echo "$out" | grep -E "^(VIOLATION|KNOWN-FINDING|HARNESS-ERROR|C[0-9]+ )" | cut -c1-400 | head -8
  echo "== $id exit=$r"
done
