#!/usr/bin/python3
"""Development tool (DESIGN §7/§13): apply each mutant to /repo, run the quick
checks expected to catch it, undo, and print a detection table."""
import json, os, re, subprocess, sys
HERE = os.path.dirname(os.path.dirname(os.path.abspath(__file__)))
EXTRA = {
    "revert-F1-sha1-salt": ["C04", "C06"], "revert-F2-gensalt-sha-abort": ["C13"],
    "revert-F3-gensalt-sha-nr3": ["C12"], "revert-F5-neg-nrbytes": ["C04", "C13"],
    "revert-F6-des-shift": ["C04"], "c10-bcrypt-15": ["C12"], "c07-ra-no-token": ["C07", "C05"],
}
def targets(name):
    if name in EXTRA: return EXTRA[name]
    m = re.match(r"c(\d\d)-", name)
    return ["C" + m.group(1)] if m else []
def main():
    only = sys.argv[1:]
    rows = []
    for f in sorted(os.listdir(os.path.join(HERE, "mutants")) + ["seeded/" + d for d in sorted(os.listdir(os.path.join(HERE, "seeded")))] if os.path.isdir(os.path.join(HERE, "seeded")) else sorted(os.listdir(os.path.join(HERE, "mutants")))):
        if f.startswith("seeded/"):
            path = os.path.join(HERE, f, "patch.diff"); name = f
            meta = json.load(open(os.path.join(HERE, f, "meta.json")))
            tg = meta.get("checks_expected") or [meta["property"]]
        else:
            if not f.endswith(".diff"): continue
            path = os.path.join(HERE, "mutants", f); name = f[:-5]; tg = targets(name)
        if only and not any(o in name for o in only): continue
        if subprocess.run(["git", "-C", "/repo", "diff", "--quiet"]).returncode:
            sys.exit("/repo dirty")
        if subprocess.run(["git", "-C", "/repo", "apply", path]).returncode:
            rows.append((name, "-", "PATCH DOES NOT APPLY")); continue
        try:
            for c in tg:
                p = subprocess.run([os.path.join(HERE, "vcheck"), "run", c, "--tier", "quick"], cwd=HERE,
                                   stdout=subprocess.PIPE, stderr=subprocess.STDOUT, text=True)
                keys = re.findall(r"key=(\S+)", p.stdout)
                rows.append((name, c, "caught exit=%d %s" % (p.returncode, keys[0] if keys else "") if p.returncode == 1
                             else ("MISSED exit=%d" % p.returncode)))
                print(rows[-1], flush=True)
        finally:
            subprocess.run(["git", "-C", "/repo", "checkout", "--", "."])
    print("\n| change | check | result |\n|---|---|---|")
    for r in rows: print("| %s | %s | %s |" % r)
if __name__ == "__main__":
    main()
