#!/bin/sh
# run every registered check (quick by default) on the current /repo tree and validate the evidence
cd "$(dirname "$0")/.." || exit 2
tier="${1:-quick}"
ids=$(python3 -c "import json;print(' '.join(c['property_id'] for c in json.load(open('MANIFEST.json'))['checks']))")
rc=0
for id in $ids; do
  s=$(date +%s)
  out=$(./vcheck run $id --tier $tier 2>&1); r=$?
  e=$(date +%s)
  echo "$out" | grep -E "^(VIOLATION|HARNESS-ERROR|C[0-9]+ (quick|thorough))" | cut -c1-220
  echo "== $id exit=$r $((e-s))s"
  [ $r -ne 0 ] && rc=1
done
python3-vt - <<'PY'
import json,jsonschema,glob
sch=json.load(open('/root/.vp/EVIDENCE.schema.json'))
for f in sorted(glob.glob('evidence/*.json')):
    try: jsonschema.validate(json.load(open(f)), sch)
    except Exception as ex: print('INVALID', f, str(ex)[:200])
print('evidence validated')
PY
exit $rc
