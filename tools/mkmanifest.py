#!/usr/bin/python3
"""Regenerate MANIFEST.json from the table below (kept in one place so that
the manifest is always valid)."""
import json
import os

HERE = os.path.dirname(os.path.dirname(os.path.abspath(__file__)))

CHECKS = {
    "C01": dict(
        category="exploration",
        technique="runtime monitoring: metamorphic round-trip oracle over grammar-generated settings on an ASan+UBSan build",
        text="Held on every executed (phrase, setting) triple: re-hash with H and with two digest-noise variants of H equals H, "
             "for all 16 methods and every accepted setting-form class the grammar produces; counts in the evidence.",
        note="Only cheap cost parameters are hashed; settings are sampled from a per-method grammar, not enumerated.",
        design="§4 C01"),
}

NOT_YET = {}

ALL = ["C%02d" % i for i in range(1, 21)]


def main():
    checks = []
    for pid in ALL:
        c = CHECKS.get(pid)
        if not c:
            continue
        checks.append({
            "property_id": pid,
            "quick_cmd": "./vcheck run %s --tier quick" % pid,
            "thorough_cmd": "./vcheck run %s --tier thorough" % pid,
            "evidence_file": "/verif/evidence/%s.json" % pid,
            "replay_cmd_template": "./vcheck replay {path}",
            "engine": "vcheck",
            "level_claimed": {"category": c["category"], "text": c["text"],
                              "design_ref": "DESIGN.md " + c["design"]},
            "level_note": c["note"],
            "technique": c["technique"],
        })
    na = []
    for pid in ALL:
        if pid not in CHECKS:
            na.append({"property_id": pid,
                       "reason": NOT_YET.get(pid, "check designed (DESIGN.md §4) but not built yet; "
                                                  "not claimed until its monitor runs quietly on the unchanged tree")})
    m = {
        "version": 1,
        "setup_cmd": "./vcheck setup",
        "hooks": {
            "guard": "LIBXCRYPT_VERIF",
            "enable": "every verification build compiles lib/*.c from /repo's working tree with -DLIBXCRYPT_VERIF "
                      "(vlib/build.py); no source hook is needed so far: all instrumentation is compiler sanitizers "
                      "plus link-time interposition (-Wl,--wrap=malloc,realloc,free,mmap,munmap,arc4random_buf)",
            "baseline_off_cmd": "cd /repo && { [ -f Makefile ] || { { [ -x configure ] || ./autogen.sh; } && ./configure; }; } && make -j16 check",
            "source_commits": [],
            "add_only": True,
        },
        "engines": [{
            "name": "vcheck", "path": "/verif/vcheck",
            "serves_properties": sorted(CHECKS),
            "kind_free_text": "Python driver + C worker (harness/vw.c) linked with sanitizer builds of the library objects; "
                              "monitors at the API and libc boundary; reference-model and released-binary oracles",
        }],
        "checks": checks,
        "not_applicable": na,
        "notes": "Technique family: runtime monitoring and sanitizers. Genuine defects found are in known-findings.json "
                 "(five repaired by fix: commits in /repo, one recorded). See DESIGN.md.",
    }
    with open(os.path.join(HERE, "MANIFEST.json"), "w") as f:
        json.dump(m, f, indent=1)
        f.write("\n")


if __name__ == "__main__":
    main()
