#!/usr/bin/python3
"""Regenerate MANIFEST.json from the table below (kept in one place so that
the manifest is always valid)."""
import json
import os

HERE = os.path.dirname(os.path.dirname(os.path.abspath(__file__)))

CHECKS = {
    "C01": dict(
        category="exploration",
        technique="runtime monitoring: metamorphic round-trip oracle over grammar-generated settings on an ASan+UBSan build",
        text="Held on every executed (phrase, setting) triple: re-hash with H and with two digest-noise variants of H equals H, "
             "for all 16 methods and every accepted setting-form class the grammar produces; counts in the evidence. The round trip is also made with the phrase left in data->input between the two calls.",
        note="Only cheap cost parameters are hashed; settings are sampled from a per-method grammar, not enumerated.",
        design="§4 C01"),
    "C02": dict(
        category="exploration",
        technique="runtime monitoring: differential execution against the released libxcrypt 4.4.33 binary and independent reference models; AVX2 and portable-C builds of the yescrypt core against the SSE2 build; OpenMP build with 1, 2 and all threads; -DNDEBUG build of the whole library",
        text="Every successful tree result (at -O2 and under ASan) equals the released binary's and, where one exists, an "
             "independent model's result on the sampled (phrase, setting) space of all 16 methods.",
        note="Native yescrypt (flavours j, /) has no independent implementation offline - released binary only; costs above the budget are not hashed.",
        design="§4 C02"),
    "C03": dict(
        category="exploration",
        technique="runtime monitoring: metamorphic inequality oracle (phrase/salt perturbations) on an ASan+UBSan build",
        text="No perturbation of the phrase inside the documented significant window, and no change of the canonical salt/cost, "
             "reproduced the digest on the executed bases; byte positions 0..510 enumerated in the thorough tier; yescrypt/scrypt cost grids at realistic sizes gave pairwise different digests. Repeated on four other hash selections.",
        note="Structural collisions outside the perturbation family are not searched; DES-based/$2x$/$2a$ driven 7-bit.",
        design="§4 C03"),
    "C04": dict(
        category="exploration",
        technique="compiler sanitizers (gcc ASan+UBSan fatal, clang MSan with uninitialised objects, valgrind memcheck, clang libFuzzer+ASan+UBSan coverage-guided stage) + canary/NUL/pointer monitors on exact-size argument blocks; ASan builds without explicit_bzero and without mmap, memcheck on the no-mmap build",
        text="No sanitizer report, canary damage, stray pointer, missing NUL or garbage-dependent result on the executed "
             "calls: all entry points x valid/field-mutated/random settings up to 40000 bytes x phrases up to 4096 x "
             "all 16 alignments x hostile integer arguments.",
        note="Red-zone tools miss overflows that stay inside output/internal; only executed paths are judged.",
        design="§4 C04"),
    "C05": dict(
        category="exploration",
        technique="runtime monitoring: fail-closed shape monitor + independent must-fail oracle over byte x position sweeps and call histories, on the default build, on one with the other failure-token option and on a -funsigned-char build",
        text="Every observed failure left NULL/the failure token, a documented errno and exactly the token in the output "
             "field; no request the must-fail oracle rejects produced a hash; thorough tier sweeps every byte value at "
             "every position of one valid setting per method. Must-fail classes include empty and wrapped cost fields, bcrypt cost fields that are not two digits, forbidden characters inside multi-$ scrypt salts.",
        note="Requests outside the must-fail oracle may succeed or fail (then only the shape is judged); ENOMEM is C15's.",
        design="§4 C05"),
    "C06": dict(
        category="exploration",
        technique="runtime monitoring: per-method result grammar + acceptance follow-ups (crypt_checksalt, crypt, crypt_gensalt prefix) on every success; the same calls in a process that selected a single-byte locale, compared with the C-locale answers",
        text="Every successful result of the workload matched its method's structural grammar, character set, length and tag and "
             "was accepted as a setting and as a gensalt prefix of the same family; per-position digest alphabet coverage reported; the widest documented cost spellings (10^8..10^9 rounds) were hashed and kept their shape.",
        note="Shape violations needing a digest value not sampled are invisible (coverage table shows what was seen).",
        design="§4 C06"),
    "C07": dict(
        category="exploration",
        technique="runtime monitoring: isolation table (fresh process per request) vs long random call histories on shared objects, ASan/MSan/shared-library builds",
        text="Every call of every history returned what the same request returns in a fresh process on a zeroed object: all entry "
             "points, alignments, refilled objects, crypt_gensalt->crypt, interleaved setkey/encrypt, uninitialised objects under MSan.",
        note="State needing a specific expensive predecessor is not reached.",
        design="§4 C07"),
    "C08": dict(
        category="exploration",
        technique="ThreadSanitizer (and helgrind in the thorough tier) on a multi-threaded stress of the re-entrant API (default build and one using the library's own explicit_bzero; libc's explicit_bzero and arc4random_buf stores repeated from instrumented code) + sequential result table + positive control",
        text="No TSan/helgrind report with a library frame and no per-thread result differing from the sequential table on the "
             "executed runs (2..16 threads, measured overlap); the crypt_gensalt() control made TSan report.",
        note="Only the schedules that ran and the configured RNG path are judged.",
        design="§4 C08"),
    "C09": dict(
        category="exploration",
        technique="runtime monitoring: data-object byte scan (ASan build and a -O2 build using the library's own explicit_bzero), poisoned private stack scan and scan of the program's static storage (-O0, -z now), realloc/munmap ledger inspection, entropy-buffer probe, primitive context checks",
        text="After every executed call internal/reserved/initialized were zero (validation passed) or untouched (validation failed); "
             "no pass-phrase encoding was left in the object, the dead stack frames, static storage, reallocated or unmapped memory; entropy buffers and "
             "digest contexts were zero.",
        note="Stack claim for -O0 only; copies shorter than the 8-byte window and registers are out of reach.",
        design="§4 C09"),
    "C10": dict(
        category="exploration",
        technique="runtime monitoring: crypt_gensalt through all three entry points, result fed to crypt_checksalt and crypt on an ASan build",
        text="Every generated setting was safe ASCII < 192 bytes with the selected tag, identical across the entry points, not INVALID, "
             "and (when affordable) hashed successfully with the setting as a literal prefix; nrbytes 0..64 (0..256 thorough) enumerated; every call repeated with other stale errno values gave the same outcome.",
        note="Settings above the cost budget are checked structurally only.",
        design="§4 C10"),
    "C11": dict(
        category="exploration",
        technique="runtime monitoring: independent cost-field decoder + documented count->cost function + reference model at the decoded cost",
        text="For every executed (prefix, count) the acceptance matched the documented range and the decoded cost equalled the documented "
             "function; affordable costs were tied to the work crypt does via the reference models, unaffordable ones (2^31+ iterations) by a work lower bound (no hash within seconds); outcomes did not depend on errno at entry. Known finding F4 (sunmd5 wrap) reported.",
        note="yescrypt/scrypt applied cost is judged by C02; only sampled 64-bit counts beyond the enumerated small ranges.",
        design="§4 C11"),
    "C12": dict(
        category="exploration",
        technique="runtime monitoring: exhaustive bit-flip injectivity over the consumed window + arc4random_buf interposition for the OS-entropy path + mocked getentropy/getrandom/syscall//dev/urandom fallback chain with fault and short-read schedules (build without arc4random_buf)",
        text="Every single-bit flip inside the bytes the salt encodes changed the salt; size clauses held for nrbytes 0..64 (0..256 thorough); "
             "with rbytes=NULL the OS source was asked once and its bytes alone determined the salt; repeated draws were distinct.",
        note="Bytes a method does not encode are not judged.",
        design="§4 C12"),
    "C13": dict(
        category="exploration",
        technique="runtime monitoring: complete enumeration of the output_size grid on exact-size heap blocks under ASan, on the default build and four further --enable-hashes selections",
        text="The whole grid output_size -2..256 x prefixes x count classes x nrbytes classes was executed: no write outside the buffer, "
             "no abort, errno ERANGE/EINVAL, failure token, leading-part and monotonicity all held.",
        note="Exhaustive for the stated grid only.",
        design="§4 C13"),
    "C14": dict(
        category="exploration",
        technique="runtime monitoring: link-time malloc/realloc/free ledger over crypt_ra / crypt_gensalt_ra call histories (ASan build; four further --enable-hashes selections)",
        text="On every executed history from every start class *data stayed a live block of >= *size >= 32768 bytes, grown blocks were "
             "erased before and zero after, results pointed into the block, nothing (heap block or mapping) leaked or was freed twice; start classes include NULL blocks with stale sizes.",
        note="'Erased before growing' judged only when the recorded size equals the real block size.",
        design="§4 C14"),
    "C15": dict(
        category="fault_enumeration",
        technique="fault injection at the interposed allocator/mapping layer: every single and double failure position of each corpus call, static entry points also as the first call of a fresh process",
        text="All single and double faults (triples sampled in thorough) of the malloc/calloc/realloc/mmap/munmap request sequence of every corpus call were injected: clean "
             "failure, documented errno, no leak, scratch erased, next call normal.",
        note="Faults inside libc and kernel OOM are out of scope; corpus, not all inputs.",
        design="§4 C15"),
    "C16": dict(
        category="exploration",
        technique="runtime monitoring: in-process differential execution of the digest/HMAC/KDF primitives against libgcrypt under ASan+UBSan and on a -DNDEBUG build",
        text="Every length up to the bound x every two-way split, random multi-way splits, key lengths 0..200 and the PBKDF2 grid agreed with "
             "libgcrypt at all buffer offsets; contexts zero after Final.",
        note="libgcrypt is the reference; the two-way-split grid is exhaustive up to 1100 bytes in the thorough tier.",
        design="§4 C16"),
    "C17": dict(
        category="exploration",
        technique="runtime monitoring: obsolete DES API bound by dlvsym from the fresh shared library and internal DES core, both against nettle DES / a bit-level salted model",
        text="All weight-1/63 key x block pairs and the random pairs agreed with DES, decrypt inverted encrypt, parity and junk bits were "
             "ignored, static and re-entrant variants agreed, crypt calls did not disturb the static key, a key set on one thread was used by encrypt on another, re-keying after the object was reused worked, concurrent first use from four threads in fresh processes was exact; salted/iterated core matched the model.",
        note="Sampling of the 2^56 x 2^64 space.",
        design="§4 C17"),
    "C18": dict(
        category="exploration",
        technique="runtime monitoring: exhaustive enumeration of short strings against an independent classifier built from hashes.conf",
        text="crypt_checksalt agreed with the independent classifier on every byte string of length <= 3, on the length-4 printable "
             "strings (all in thorough), on random longer strings and on all hashed settings; preferred method OK and equal to NULL prefix; a program compiled -O2/-O3 against the generated header got the same answers.",
        note="Exhaustive for the enumerated spaces only; six further build configurations are enumerated up to length 3, the rest are C19's.",
        design="§4 C18"),
    "C19": dict(
        category="exploration",
        technique="runtime monitoring over build configurations: headers generated by the repository's scripts per selection, library rebuilt and linked with the worker, corpus compared with the full build",
        text="All 16 singletons, the named groups, the full set, leave-one-out and guard-isolating selections (plus 100 random subsets in thorough) "
             "built; enabled methods gave the full build's results (also with the arguments inside a randomly filled object, and every result reproduced itself as a setting), disabled tags were refused everywhere, default prefix / preferred method / "
             "CRYPT_GENSALT_IMPLEMENTS_DEFAULT_PREFIX matched the strongest enabled default-capable method.",
        note="2^16 subsets are sampled; configurations compiled at -O1 without sanitizers (C13/C14/C05/C09/C12/C20 vary sanitizers and the other configure options for their own clauses).",
        design="§4 C19"),
    "C20": dict(
        category="other",
        technique="runtime monitoring: differential execution of a released-ABI client (compat symbol versions, glibc-size crypt_data with canary) against the fresh shared library + layout and symbol-version probes",
        text="struct layout and constants equal the released header's and the stated values; every (symbol, version) the released libcrypt.so.1 "
             "defines is defined, also in builds for each --enable-obsolete-api flavour (glibc, alt, owl, suse); configure's symbol-version floor for 35 host platforms and its keep/drop decision for the compatibility ABI are as released; the old client's transcript (including setkey;crypt;encrypt histories) is identical with the fresh library and compat symbols equal their modern counterparts.",
        note="x86-64 glibc only; glibc-era binaries are emulated via .symver, not available.",
        design="§4 C20"),
}

NOT_YET = {}

ALL = ["C%02d" % i for i in range(1, 21)]


def main():
    checks = []
    for pid in ALL:
        c = CHECKS.get(pid)
        if not c:
            continue
        checks.append({
            "property_id": pid,
            "quick_cmd": "./vcheck run %s --tier quick" % pid,
            "thorough_cmd": "./vcheck run %s --tier thorough" % pid,
            "evidence_file": "/verif/evidence/%s.json" % pid,
            "replay_cmd_template": "./vcheck replay {path}",
            "engine": "vcheck",
            "level_claimed": {"category": c["category"], "text": c["text"],
                              "design_ref": "DESIGN.md " + c["design"]},
            "level_note": c["note"],
            "technique": c["technique"],
        })
    na = []
    for pid in ALL:
        if pid not in CHECKS:
            na.append({"property_id": pid,
                       "reason": NOT_YET.get(pid, "check designed (DESIGN.md §4) but not built yet; "
                                                  "not claimed until its monitor runs quietly on the unchanged tree")})
    m = {
        "version": 1,
        "setup_cmd": "./vcheck setup",
        "hooks": {
            "guard": "LIBXCRYPT_VERIF",
            "enable": "every verification build compiles lib/*.c from /repo's working tree with -DLIBXCRYPT_VERIF "
                      "(vlib/build.py); no source hook is needed so far: all instrumentation is compiler sanitizers "
                      "plus link-time interposition (-Wl,--wrap= for malloc, calloc, posix_memalign, aligned_alloc, realloc, free, mmap, munmap, arc4random_buf, explicit_bzero, setlocale, strtok, l64a, localeconv, rand)",
            "baseline_off_cmd": "cd /repo && { [ -f Makefile ] || { { [ -x configure ] || ./autogen.sh; } && ./configure; }; } && make -j16 check",
            "source_commits": [],
            "add_only": True,
        },
        "engines": [{
            "name": "vcheck", "path": "/verif/vcheck",
            "serves_properties": sorted(CHECKS),
            "kind_free_text": "Python driver + C worker (harness/vw.c) linked with sanitizer builds of the library objects; "
                              "monitors at the API and libc boundary; reference-model and released-binary oracles",
        }],
        "checks": checks,
        "not_applicable": na,
        "notes": "Technique family: runtime monitoring and sanitizers. Genuine defects found are in known-findings.json "
                 "(five repaired by fix: commits in /repo, one recorded). See DESIGN.md.",
    }
    with open(os.path.join(HERE, "MANIFEST.json"), "w") as f:
        json.dump(m, f, indent=1)
        f.write("\n")


if __name__ == "__main__":
    main()
